------------------------------- MODULE EpNSpec -------------------------------
(***************************************************************************)
(* The twisted curves over F_p3, F_p4 and F_p8 that carry the second       *)
(* pairing group at the other pairing field sizes (the ep3, ep4 and ep8    *)
(* modules of RELIC: KSS18 / SG18 / FM18 curves, BLS24 / KSS16 / AFG16 /   *)
(* FM16 curves, BLS48 curves) at the level of one public call (C11,        *)
(* extension part).  Model/Ep2Spec generalised over the tower: the         *)
(* definition is lib/CurveX (the affine group law over a tower level) over *)
(* lib/Tower, with the tower DESCRIPTION taken from the event - per level  *)
(* k the degree deg_k in {2, 3} and the deg_k-th power of the level's      *)
(* generator as the library's own multiplication reveals it, which must    *)
(* lie in level k-1 (the constants themselves are judged by C10 / C18):    *)
(*   F_p3 = F_p[j]/(j^3 - c),                                              *)
(*   F_p4 = F_p[u]/(u^2 - q)[v]/(v^2 - xi),  F_p8 = F_p4[w]/(w^2 - v').    *)
(* A field element is logged flat (N raw F_p elements, storage order, the  *)
(* lowest level innermost) and rebuilt with Tower!TUnflat.                 *)
(* [k]Q is CurveX!XMulNat evaluated with the balanced recursion of         *)
(* model/CurveXB (model-checked equal to the definition by MCCurveX; the   *)
(* group axioms over a quartic tower are model-checked by MCCurveX4).      *)
(*                                                                         *)
(* An event e (harness/drv_epn.c) carries op (ep<N>_<name>), g (<name>),   *)
(* the field header (p, w, fd, mont), N, lv (the tower), the raw twist     *)
(* coefficients a, b, the group order n, the cofactor h2, build parameters *)
(* (add = default coordinate system, wd, dep, dgb, fpb), al = alias        *)
(* pattern, the raw inputs BEFORE the call (P, Q points; k, m bn; dg       *)
(* digit; pw Frobenius power; ps, ks lists), the raw outputs AFTER (R      *)
(* point, rs points, ret), crash, err, code, unch.                         *)
(***************************************************************************)
EXTENDS FpRep, BigInt, CurveXB

(* ---- refinement mapping ---- *)
RInv(e) == IF e.mont = 1 THEN FInv(BMod(FR(e), FPrime(e)), FPrime(e)) ELSE <<1>>
FA(cx, raw) == FMul(BNorm(raw), cx.ri, cx.p)
RECURSIVE FlatAR(_, _, _)
FlatAR(cx, r, i) == IF i > Len(r) THEN <<>> ELSE <<FA(cx, r[i])>> \o FlatAR(cx, r, i + 1)

(* number of F_p coefficients of an element of the level below level k, from the logged degrees *)
RECURSIVE DimBelow(_, _)
DimBelow(e, k) == IF k <= 1 THEN 1 ELSE e.lv[k - 1].deg * DimBelow(e, k - 1)

(* the tower description is well-formed: every gen^deg lies in the level below and is not zero *)
TowerOk(e) ==
    /\ Len(e.lv) \in 1..3
    /\ \A k \in 1..Len(e.lv) :
          /\ e.lv[k].deg \in {2, 3}
          /\ Len(e.lv[k].g) = e.N
          /\ \A i \in (DimBelow(e, k) + 1)..e.N : BNorm(e.lv[k].g[i]) = <<>>
          /\ \E i \in 1..DimBelow(e, k) : BNorm(e.lv[k].g[i]) # <<>>
    /\ DimBelow(e, Len(e.lv) + 1) = e.N

(* T has the levels 1 .. Len(T.lv); append the remaining ones *)
RECURSIVE BuildT(_, _, _)
BuildT(e, c0, T) ==
    LET k == Len(T.lv) + 1 IN
    IF k > Len(e.lv) THEN T
    ELSE LET d  == TDim(T, k - 1)
             fl == FlatAR(c0, e.lv[k].g, 1)
             nr == TUnflat(T, k - 1, SubSeq(fl, 1, d))
         IN  BuildT(e, c0, [p |-> T.p, lv |-> Append(T.lv, [deg |-> e.lv[k].deg, nr |-> nr])])

FXA(cx, r) == TUnflat(cx.T, cx.K, FlatAR(cx, r, 1))
(* per-event context, computed once: prime, 1/R for Montgomery form, tower, top level, curve *)
Cx(e) ==
    LET ri == RInv(e)
        c0 == [p |-> FPrime(e), ri |-> ri]
        T  == BuildT(e, c0, [p |-> FPrime(e), lv |-> <<>>])
        K  == Len(e.lv)
        c1 == [p |-> FPrime(e), ri |-> ri, T |-> T, K |-> K]
    IN  [p |-> FPrime(e), ri |-> ri, T |-> T, K |-> K, Z |-> TZero(T, K), One |-> TOne(T, K),
         c |-> [T |-> T, k |-> K, a |-> FXA(c1, e.a), b |-> FXA(c1, e.b)]]

FXCanon(e, r) == Len(r) = e.N /\ \A i \in 1..Len(r) : FCanon(e, r[i])
XCanon(e, P) == FXCanon(e, P.x) /\ FXCanon(e, P.y) /\ FXCanon(e, P.z)
(* abstract (affine) value of a raw point; infinity iff z = 0 *)
XAbs(cx, P) ==
    LET T == cx.T
        K == cx.K
        z == FXA(cx, P.z)
        x == FXA(cx, P.x)
        y == FXA(cx, P.y)
    IN  IF z = cx.Z THEN XInf(cx.c)
        ELSE IF P.c = 1 THEN XPt(x, y)
        ELSE LET zi == TInv(T, K, z) IN
             IF P.c = 2 THEN XPt(TMul(T, K, x, zi), TMul(T, K, y, zi))
             ELSE LET zi2 == TMul(T, K, zi, zi) IN
                  XPt(TMul(T, K, x, zi2), TMul(T, K, y, TMul(T, K, zi2, zi)))

Ok(e) == e.crash = 0 /\ e.err = 0 /\ e.code = 0 /\ e.unch
ValidTag(P) == P.c \in {1, 2, 3}
(* operand representations a routine is specified for: affine (tag 1, z = 1 or the library identity) *)
(* and the projective system sys of the routine                                                      *)
RepOk(e, cx, P, sys) == /\ ValidTag(P) /\ XCanon(e, P)
                        /\ P.c \in {1, sys}
                        /\ (P.c = 1 => FXA(cx, P.z) \in {cx.Z, cx.One})
AnyRep(e, cx, P) == ValidTag(P) /\ XCanon(e, P) /\ (P.c = 1 => FXA(cx, P.z) \in {cx.Z, cx.One})
(* precondition of every group operation: operands are points of the curve (the twist equation) *)
OnC(cx, P) == XOnCurve(XAbs(cx, P), cx.c)

SysOf(e) ==
    CASE e.g \in {"add_basic", "dbl_basic"} -> 1
      [] e.g \in {"add_projc", "dbl_projc"} -> 2
      [] e.g \in {"add_jacob", "dbl_jacob"} -> 3
      [] OTHER -> e.add

(* the call returned normally and R is a valid representation of the point X *)
RetPoint(e, cx, X) == Ok(e) /\ ValidTag(e.R) /\ XCanon(e, e.R) /\ XEq(XAbs(cx, e.R), X)
(* ... in normalised affine form (norm, norm_sim only: the property speaks of representation there) *)
XNormal(e, cx, P) == XCanon(e, P) /\ (FXA(cx, P.z) = cx.Z \/ (FXA(cx, P.z) = cx.One /\ P.c = 1))
RetNormal(e, cx, X) == RetPoint(e, cx, X) /\ XNormal(e, cx, e.R)

KNeg(k) == k.s = 1 /\ BNorm(k.d) # <<>>
(* [k]P by the definition, k a bn projection, P a raw point *)
KP(cx, k, P) == XMulSB(KNeg(k), BNorm(k.d), XAbs(cx, P), cx.c)

RECURSIVE SumKPSeq(_, _, _)
SumKPSeq(e, cx, sums) ==
    IF Len(sums) > Len(e.ps) THEN sums
    ELSE LET i == Len(sums)
             nxt == XAdd(sums[i], KP(cx, e.ks[i], e.ps[i]), cx.c)
         IN  SumKPSeq(e, cx, Append(sums, nxt))
SumKP(e, cx) == LET s == SumKPSeq(e, cx, <<XInf(cx.c)>>) IN s[Len(s)]

DblOps == {"dbl", "dbl_basic", "dbl_projc", "dbl_jacob"}
AddOps == {"add", "add_basic", "add_projc", "add_jacob"}
MulOps == {"mul", "mul_basic", "mul_slide", "mul_monty", "mul_lwnaf", "mul_lwreg",
           "mul_gen", "mul_fix", "mul_fix_basic", "mul_fix_combs", "mul_fix_combd", "mul_fix_lwnaf"}
SimOps == {"mul_sim", "mul_sim_basic", "mul_sim_trick", "mul_sim_inter", "mul_sim_joint", "mul_sim_gen"}
LotOps == {"mul_sim_lot", "mul_sim_dig"}

(* p^j mod r: the scalar by which the j-th power of the Frobenius endomorphism acts on the order-r subgroup *)
FrbScalar(e, j) == BModExp(BMod(FPrime(e), BNorm(e.n.d)), BFromNat(j), BNorm(e.n.d))

EpNAccept(e) ==
    IF e.op \in {"curve_probe", "restart"} THEN TRUE        \* input discovery / resume marker: nothing claimed
    ELSE IF e.op = "BADCURVE" THEN FALSE
    ELSE IF ~TowerOk(e) THEN FALSE
    ELSE
    LET cx == Cx(e)
        c  == cx.c
        r  == BNorm(e.n.d)
    IN
    CASE e.g = "neg" ->
            AnyRep(e, cx, e.P) /\ OnC(cx, e.P) /\ RetPoint(e, cx, XNeg(XAbs(cx, e.P), c))
      [] e.g \in DblOps ->
            RepOk(e, cx, e.P, SysOf(e)) /\ OnC(cx, e.P) /\ RetPoint(e, cx, XDbl(XAbs(cx, e.P), c))
      [] e.g \in AddOps ->
            /\ RepOk(e, cx, e.P, SysOf(e)) /\ RepOk(e, cx, e.Q, SysOf(e)) /\ OnC(cx, e.P) /\ OnC(cx, e.Q)
            /\ RetPoint(e, cx, XAdd(XAbs(cx, e.P), XAbs(cx, e.Q), c))
      [] e.g = "sub" ->
            /\ RepOk(e, cx, e.P, SysOf(e)) /\ RepOk(e, cx, e.Q, SysOf(e)) /\ OnC(cx, e.P) /\ OnC(cx, e.Q)
            /\ RetPoint(e, cx, XSub(XAbs(cx, e.P), XAbs(cx, e.Q), c))
      [] e.g = "norm" ->
            AnyRep(e, cx, e.P) /\ OnC(cx, e.P) /\ RetNormal(e, cx, XAbs(cx, e.P))
      (* simultaneous normalisation: every entry (identities included) is returned normalised *)
      [] e.g = "norm_sim" ->
            /\ Len(e.ps) = e.cnt /\ Len(e.rs) = e.cnt /\ Ok(e)
            /\ \A i \in 1..Len(e.ps) :
                  /\ AnyRep(e, cx, e.ps[i]) /\ OnC(cx, e.ps[i])
                  /\ ValidTag(e.rs[i]) /\ XNormal(e, cx, e.rs[i])
                  /\ XEq(XAbs(cx, e.rs[i]), XAbs(cx, e.ps[i]))
      [] e.g = "cmp" ->
            /\ AnyRep(e, cx, e.P) /\ AnyRep(e, cx, e.Q) /\ Ok(e)
            /\ ((e.ret = e.EQ) <=> XEq(XAbs(cx, e.P), XAbs(cx, e.Q)))
      [] e.g = "on_curve" ->
            AnyRep(e, cx, e.P) /\ Ok(e) /\ e.ret \in {0, 1} /\ ((e.ret = 1) <=> OnC(cx, e.P))
      [] e.g = "is_infty" ->
            AnyRep(e, cx, e.P) /\ Ok(e) /\ e.ret \in {0, 1} /\ ((e.ret = 1) <=> XAbs(cx, e.P).inf)
      [] e.g \in MulOps ->
            RepOk(e, cx, e.P, SysOf(e)) /\ OnC(cx, e.P) /\ RetPoint(e, cx, KP(cx, e.k, e.P))
      [] e.g = "mul_dig" ->
            /\ RepOk(e, cx, e.P, SysOf(e)) /\ OnC(cx, e.P)
            /\ RetPoint(e, cx, XMulB(BNorm(e.dg), XAbs(cx, e.P), c))
      [] e.g \in SimOps ->
            /\ RepOk(e, cx, e.P, SysOf(e)) /\ RepOk(e, cx, e.Q, SysOf(e)) /\ OnC(cx, e.P) /\ OnC(cx, e.Q)
            /\ RetPoint(e, cx, XAdd(KP(cx, e.k, e.P), KP(cx, e.m, e.Q), c))
      [] e.g \in LotOps ->
            /\ Len(e.ps) = e.cnt /\ Len(e.ks) = e.cnt
            /\ \A i \in 1..Len(e.ps) : RepOk(e, cx, e.ps[i], SysOf(e)) /\ OnC(cx, e.ps[i])
            /\ RetPoint(e, cx, SumKP(e, cx))
      (* the Frobenius (untwist-Frobenius-twist) endomorphism: on the order-r subgroup its j-th power is [p^j mod r] *)
      [] e.g = "frb" ->
            /\ AnyRep(e, cx, e.P) /\ OnC(cx, e.P) /\ e.pw >= 0
            /\ RetPoint(e, cx, XMulB(FrbScalar(e, e.pw), XAbs(cx, e.P), c))
      (* cofactor clearing: EVERY point of the curve is sent into the order-r subgroup *)
      [] e.g = "mul_cof" ->
            /\ RepOk(e, cx, e.P, SysOf(e)) /\ OnC(cx, e.P)
            /\ Ok(e) /\ ValidTag(e.R) /\ XCanon(e, e.R)
            /\ LET X == XAbs(cx, e.R) IN XOnCurve(X, c) /\ XMulB(r, X, c).inf
      [] OTHER -> FALSE

(***************************************************************************)
(* Known findings (/verif/known_findings.json): enabled only for the op +  *)
(* input class + the kind of wrong outcome the finding describes.  The     *)
(* three defect classes repaired in the ep2 module (and in ep before) are  *)
(* present unchanged in ep3 / ep4 / ep8:                                   *)
(*                                                                         *)
(* C11-epN-cmp-zero-infinity: ep<N>_cmp special-cases the identity only    *)
(* when BOTH operands are the identity; the identity stored as the         *)
(* all-zero triple with a projective tag (what the shared addition         *)
(* template returns for P + (-P) in Jacobian coordinates) compares RLC_EQ  *)
(* to EVERY finite point - both sides of the cross multiplication are 0.   *)
(*                                                                         *)
(* C11-epN-normsim-infinity: ep<N>_norm_sim feeds z = 0 of an identity     *)
(* entry to the simultaneous inversion, which throws; so do the callers    *)
(* that normalise a table containing the identity: ep<N>_mul_sim_joint     *)
(* with Q = +-P, ep<N>_mul_sim_trick with iP + jQ = O.                     *)
(*                                                                         *)
(* C11-epN-slide-long-scalar: ep<N>_mul_slide recodes the scalar AS GIVEN  *)
(* into a buffer of RLC_FP_BITS + 1 windows: every |k| of more than        *)
(* RLC_FP_BITS + 1 bits throws (no reduction modulo the group order).      *)
(*                                                                         *)
(* C11-epN-sim-long-scalar: ep<N>_mul_sim_inter (= ep<N>_mul_sim),         *)
(* _mul_sim_trick, _mul_sim_joint, _mul_sim_gen and ep<N>_mul_fix_lwnaf    *)
(* (= ep4 / ep8 _mul_fix) recode the scalars AS GIVEN into buffers of      *)
(* 2 * RLC_FP_BITS (+ 1) digits: a scalar of more than 2 * RLC_FP_BITS     *)
(* bits (possible up to BN_PRECI) throws ERR_NO_BUFFER; the ep2 routines   *)
(* reduce modulo the group order first.                                    *)
(***************************************************************************)
SimTableInf(e, cx) ==
    LET c == cx.c
        \* the tables are built from sign(k) P and sign(m) Q
        P == IF KNeg(e.k) THEN XNeg(XAbs(cx, e.P), c) ELSE XAbs(cx, e.P)
        Q == IF KNeg(e.m) THEN XNeg(XAbs(cx, e.Q), c) ELSE XAbs(cx, e.Q)
        M == Pow2(e.wd \div 2) - 1
    IN  IF e.g = "mul_sim_joint" THEN XEq(P, Q) \/ XEq(P, XNeg(Q, c))
        ELSE \E i \in 0..M, j \in 0..M :
                /\ i * (M + 1) + j >= 2
                /\ XAdd(XMulB(BFromNat(i), P, c), XMulB(BFromNat(j), Q, c), c).inf

Threw(e) == e.crash = 0 /\ e.err # 0 /\ e.code = 1
LongOps == {"mul_sim", "mul_sim_inter", "mul_sim_trick", "mul_sim_joint", "mul_sim_gen", "mul_fix", "mul_fix_lwnaf"}

EpNKnownKey(e) ==
    IF e.op \in {"curve_probe", "restart", "BADCURVE"} THEN ""
    ELSE IF e.g \notin ({"cmp", "norm_sim", "mul_slide"} \cup LongOps) \/ ~TowerOk(e) THEN ""
    ELSE
    LET cx == Cx(e) IN
    CASE /\ e.g = "cmp" /\ AnyRep(e, cx, e.P) /\ AnyRep(e, cx, e.Q) /\ Ok(e)
         /\ XAbs(cx, e.P).inf # XAbs(cx, e.Q).inf
         /\ LET Z == IF XAbs(cx, e.P).inf THEN e.P ELSE e.Q IN
              Z.c # 1 /\ FXA(cx, Z.x) = cx.Z /\ FXA(cx, Z.y) = cx.Z
         /\ e.ret = e.EQ
            -> "C11-epN-cmp-zero-infinity"
      [] /\ e.g = "norm_sim" /\ Len(e.ps) = e.cnt
         /\ \A i \in 1..Len(e.ps) : AnyRep(e, cx, e.ps[i]) /\ OnC(cx, e.ps[i])
         /\ \E i \in 1..Len(e.ps) : XAbs(cx, e.ps[i]).inf
         /\ Threw(e)
            -> "C11-epN-normsim-infinity"
      [] /\ e.g \in {"mul_sim_joint", "mul_sim_trick"}
         /\ RepOk(e, cx, e.P, SysOf(e)) /\ RepOk(e, cx, e.Q, SysOf(e)) /\ OnC(cx, e.P) /\ OnC(cx, e.Q)
         /\ ~XAbs(cx, e.P).inf /\ ~XAbs(cx, e.Q).inf /\ BNorm(e.k.d) # <<>> /\ BNorm(e.m.d) # <<>>
         /\ Threw(e)
         /\ SimTableInf(e, cx)
            -> "C11-epN-normsim-infinity"
      [] /\ e.g = "mul_slide"
         /\ RepOk(e, cx, e.P, SysOf(e)) /\ OnC(cx, e.P) /\ ~XAbs(cx, e.P).inf
         /\ BBits(e.k.d) > e.fpb + 1
         /\ Threw(e)
            -> "C11-epN-slide-long-scalar"
      [] /\ e.g \in LongOps
         /\ RepOk(e, cx, e.P, SysOf(e)) /\ OnC(cx, e.P)
         /\ (e.g \in SimOps => RepOk(e, cx, e.Q, SysOf(e)) /\ OnC(cx, e.Q))
         /\ (IF e.g \in SimOps THEN BBits(e.k.d) > 2 * e.fpb \/ BBits(e.m.d) > 2 * e.fpb ELSE BBits(e.k.d) > 2 * e.fpb)
         /\ Threw(e)
            -> "C11-epN-sim-long-scalar"
      [] OTHER -> ""
=============================================================================
