CONSTANTS Budget = 7  MaxDepth = 4  SnapshotCaught = TRUE
SPECIFICATION Spec
INVARIANTS NoViolation NoDangling ChainShape FinallyAtMostOnce EndState
VIEW View
CHECK_DEADLOCK FALSE
