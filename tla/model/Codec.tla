-------------------------------- MODULE Codec --------------------------------
(***************************************************************************)
(* The external representations of RELIC objects (C07) as TLA+ operators   *)
(* on BYTE STRINGS (Seq(0..255) in wire order):                            *)
(*   integers      big-endian binary of a given length, digit vectors,     *)
(*                 text in radix 2..64 (sign, digit alphabet               *)
(*                 0-9 A-Z a-z + /, NUL terminator)                        *)
(*   field elems   exactly fb = RLC_FP_BYTES big-endian bytes, value < p;  *)
(*                 text form through the integer one                       *)
(*   extensions    concatenation of the coefficients                       *)
(*   curve points  0 (1 byte) = infinity | 2+s x (fb+1) | 4 x y (2fb+1),    *)
(*                 over F_p and over F_p^2 (G2 of pairing-friendly curves) *)
(* Enc.. is total on valid values, Dec.. returns Ok(v) or Bad.  Values are  *)
(* the abstract ones of lib/BigInt, lib/Field, lib/Curve.  MCCodec checks  *)
(* the definitions (round trips, canonicity, Dec accepts exactly the image *)
(* of Enc); CodecSpec binds the C functions to them.                       *)
(***************************************************************************)
EXTENDS Curve, BigInt

Ok(v) == [ok |-> TRUE, v |-> v]
Bad   == [ok |-> FALSE, v |-> <<>>]

IsByteStr(s) == \A i \in 1..Len(s) : s[i] \in 0..255
Concat(ss) == LET RECURSIVE cc(_)
                  cc(i) == IF i > Len(ss) THEN <<>> ELSE ss[i] \o cc(i + 1)
              IN  cc(1)

(* ------------------------------------------------------------ integers *)
(* binary: magnitude, big-endian, left-padded with zeros to the buffer length *)
BnSizeBin(v)     == BLenBytes(v)
BnEncBin(v, len) == IF len < BnSizeBin(v) THEN Bad ELSE Ok(BToBE(v, len))
BnDecBin(s)      == BFromBE(s)                       \* total: every string is a natural

(* digit vector of w-byte digits (least significant first), here as bytes *)
BnSizeRaw(v, w)     == Max(1, (BLenBytes(v) + w - 1) \div w)
BnEncRaw(v, len, w) == IF len < BnSizeRaw(v, w) THEN Bad
                       ELSE Ok(BNorm(v) \o Zeros(len * w - Len(BNorm(v))))
BnDecRaw(bytes)     == BNorm(bytes)

(* ---------------------------------------------------------------- text *)
ValidRadix(r) == r >= 2 /\ r <= 64
(* the digit alphabet: 0-9 A-Z a-z + /  (util_conv_char) *)
DigitChar(d) == IF d < 10 THEN 48 + d
                ELSE IF d < 36 THEN 65 + (d - 10)
                ELSE IF d < 62 THEN 97 + (d - 36)
                ELSE IF d = 62 THEN 43 ELSE 47
(* below radix 36 letters are case-insensitive *)
Fold(c, radix) == IF radix < 36 /\ c >= 97 /\ c <= 122 THEN c - 32 ELSE c
CharVal(c) == IF c >= 48 /\ c <= 57 THEN c - 48
              ELSE IF c >= 65 /\ c <= 90 THEN c - 55
              ELSE IF c >= 97 /\ c <= 122 THEN c - 61
              ELSE IF c = 43 THEN 62
              ELSE IF c = 47 THEN 63 ELSE 64
DigitOf(c, radix) == CharVal(Fold(c, radix))          \* a digit of the radix iff < radix
IsDigitCh(c, radix) == DigitOf(c, radix) < radix

(* positional notation: the value of a digit sequence, most significant first *)
RECURSIVE HornerR(_, _, _, _)
HornerR(ds, r, i, acc) == IF i > Len(ds) THEN acc
                          ELSE HornerR(ds, r, i + 1, BAdd(BMul(acc, r), BFromNat(ds[i])))
PosValue(ds, radix) == HornerR(ds, BFromNat(radix), 1, <<>>)

(* the digits of a natural, most significant first, none for zero *)
RECURSIVE NatDigitsR(_, _, _)
NatDigitsR(v, r, acc) == IF v = <<>> THEN acc
                         ELSE LET qr == BDivMod(v, r) IN
                              NatDigitsR(qr[1], r, <<BToNat(qr[2])>> \o acc)
NatDigits(v, radix) == NatDigitsR(BNorm(v), BFromNat(radix), <<>>)

(* the canonical numeral of a signed integer x (lib/BigInt record) *)
Numeral(x, radix) ==
    IF IIsZero(x) THEN <<48>>
    ELSE LET ds == NatDigits(x.mag, radix) IN
         (IF x.neg THEN <<45>> ELSE <<>>) \o [i \in 1..Len(ds) |-> DigitChar(ds[i])]
(* the advertised size: the numeral and its terminator *)
SizeStr(x, radix) == Len(Numeral(x, radix)) + 1
EncStr(x, radix, len) == IF ~ValidRadix(radix) THEN Bad
                         ELSE IF len < SizeStr(x, radix) THEN Bad
                         ELSE Ok(Numeral(x, radix) \o <<0>>)

(* reading: optional '-', then the longest run of digits of the radix (it   *)
(* ends at the terminator, at any other character or at the buffer end)     *)
RECURSIVE RunLen(_, _, _)
RunLen(s, radix, j) == IF j > Len(s) THEN 0
                       ELSE IF IsDigitCh(s[j], radix) THEN 1 + RunLen(s, radix, j + 1) ELSE 0
StrNeg(s)   == Len(s) >= 1 /\ s[1] = 45
StrStart(s) == IF StrNeg(s) THEN 2 ELSE 1
StrDigits(s, radix) == LET st == StrStart(s)
                           n  == RunLen(s, radix, st)
                       IN  [k \in 1..n |-> DigitOf(s[st + k - 1], radix)]
DecStr(s, radix) == IF ~ValidRadix(radix) THEN Bad
                    ELSE Ok(I(StrNeg(s), PosValue(StrDigits(s, radix), radix)))
(* s (without terminator) is a numeral: sign, at least one digit, nothing else *)
IsNumeral(s, radix) == LET st == StrStart(s) IN
                       Len(s) >= st /\ RunLen(s, radix, st) = Len(s) - st + 1
(* ... the canonical one: alphabet characters, no leading zero, no "-0" *)
IsCanonNumeral(s, radix) ==
    /\ IsNumeral(s, radix)
    /\ \A j \in StrStart(s)..Len(s) : s[j] = DigitChar(DigitOf(s[j], radix))
    /\ (s[StrStart(s)] = 48 => (Len(s) = 1))

(* ------------------------------------------------------- field elements *)
FpEncBin(v, fb)    == BToBE(v, fb)
FpDecBin(s, p, fb) == IF Len(s) # fb THEN Bad
                      ELSE LET v == BFromBE(s) IN IF BLt(v, p) THEN Ok(v) ELSE Bad
(* text form: the numeral of the residue; reading reduces modulo p *)
FpDecStr(s, radix, p) == LET d == DecStr(s, radix) IN
                         IF d.ok THEN Ok(FFromInt(d.v.neg, d.v.mag, p)) ELSE Bad

(* extension-field elements: d coefficients (a sequence of residues), concatenated *)
FpxEncBin(cs, fb) == Concat([i \in 1..Len(cs) |-> BToBE(cs[i], fb)])
FpxDecBin(s, p, fb, d) ==
    IF Len(s) # d * fb THEN Bad
    ELSE LET cs == [i \in 1..d |-> BFromBE(SubSeq(s, (i - 1) * fb + 1, i * fb))] IN
         IF \A i \in 1..d : BLt(cs[i], p) THEN Ok(cs) ELSE Bad

(* ------------------------------------------------------------ square roots *)
(* Tonelli-Shanks for an odd prime p; a must be a square; used to DEFINE the *)
(* decompressed ordinate (MCCodec checks FSqrt against squaring)            *)
RECURSIVE TwoAdicR(_, _)
TwoAdicR(q, s) == IF BBit(q, 0) = 1 THEN <<q, s>> ELSE TwoAdicR(BShr(q, 1), s + 1)
RECURSIVE NonResidueR(_, _)
NonResidueR(z, p) == IF FLegendre(z, p) = 0 - 1 THEN z ELSE NonResidueR(BAdd(z, <<1>>), p)
RECURSIVE OrderExpR(_, _, _)
OrderExpR(t, i, p) == IF t = <<1>> THEN i ELSE OrderExpR(FSqr(t, p), i + 1, p)
RECURSIVE SqrN(_, _, _)
SqrN(b, n, p) == IF n = 0 THEN b ELSE SqrN(FSqr(b, p), n - 1, p)
RECURSIVE TSLoop(_, _, _, _, _)
TSLoop(m, c, t, r, p) ==
    IF t = <<1>> THEN r
    ELSE LET i  == OrderExpR(t, 0, p)
             b  == SqrN(c, m - i - 1, p)
             c2 == FSqr(b, p)
         IN  TSLoop(i, c2, FMul(t, c2, p), FMul(r, b, p), p)
FSqrt(a, p) ==
    IF a = <<>> THEN <<>>
    ELSE LET qs == TwoAdicR(BSub(p, <<1>>), 0)
             q  == qs[1]
             z  == NonResidueR(<<2>>, p)
         IN  TSLoop(qs[2], BModExp(z, q, p), BModExp(a, q, p),
                    BModExp(a, BShr(BAdd(q, <<1>>), 1), p), p)

(* ---------------------------------------------------------------- points *)
(* The bit that selects the ordinate in a packed form is a PARAMETER sg of the *)
(* format: any function of the ordinate that separates y from -y for y # 0     *)
(* gives a canonical, round-tripping format (MCCodec checks the invariants for *)
(* the plain conventions).  The conventions RELIC's representation induces:    *)
(*   "parity"  y mod 2                 stored digits = the value               *)
(*   "half"    y > (p-1)/2             pairing-friendly curves (IETF), where   *)
(*                                     the code converts to an integer first   *)
(*   "mont"    (y * sg.r mod p) mod 2  bit 0 of the stored digits when the     *)
(*                                     element is kept as y*R mod p (sg.r =    *)
(*                                     R mod p, Montgomery builds)             *)
(* CodecSpec selects sg from the recorded field header (RawSg / SgOf).         *)
SgParity == [kind |-> "parity", r |-> <<1>>]
SgHalf   == [kind |-> "half", r |-> <<1>>]
SgMont(r) == [kind |-> "mont", r |-> r]
SignBit(y, p, sg) == IF sg.kind = "half" THEN (IF BLt(BShr(p, 1), y) THEN 1 ELSE 0)
                     ELSE IF sg.kind = "mont" THEN BBit(FMul(y, sg.r, p), 0)
                     ELSE BBit(y, 0)

ValidPoint(P, c) == OnCurve(P, c)
EncSize(P, pack, fb) == IF P.inf THEN 1 ELSE IF pack THEN fb + 1 ELSE 2 * fb + 1
EncPoint(P, pack, c, fb, sg) ==
    IF P.inf THEN <<0>>
    ELSE IF pack THEN <<2 + SignBit(P.y, c.p, sg)>> \o BToBE(P.x, fb)
    ELSE <<4>> \o BToBE(P.x, fb) \o BToBE(P.y, fb)

(* the ordinate over x selected by bit, or Bad: x has no point, or the only *)
(* ordinate is 0 and the bit asks for the other one                         *)
Decompress(x, bit, c, sg) ==
    IF ~HasPointWithX(x, c) THEN Bad
    ELSE LET r == FSqrt(Rhs(x, c), c.p)
             y == IF SignBit(r, c.p, sg) = bit THEN r ELSE FNeg(r, c.p)
         IN  IF SignBit(y, c.p, sg) = bit THEN Ok(Pt(x, y)) ELSE Bad

DecPoint(s, c, fb, sg) ==
    IF Len(s) = 1 THEN (IF s[1] = 0 THEN Ok(PInf) ELSE Bad)
    ELSE IF Len(s) = fb + 1 THEN
        IF s[1] \notin {2, 3} THEN Bad
        ELSE LET x == BFromBE(SubSeq(s, 2, fb + 1)) IN
             IF ~BLt(x, c.p) THEN Bad ELSE Decompress(x, s[1] - 2, c, sg)
    ELSE IF Len(s) = 2 * fb + 1 THEN
        IF s[1] # 4 THEN Bad
        ELSE LET x == BFromBE(SubSeq(s, 2, fb + 1))
                 y == BFromBE(SubSeq(s, fb + 2, 2 * fb + 1))
             IN  IF BLt(x, c.p) /\ BLt(y, c.p) /\ OnCurve(Pt(x, y), c) THEN Ok(Pt(x, y)) ELSE Bad
    ELSE Bad
(* the format (pack flag) a non-infinity encoding was written in *)
PackOf(s) == s[1] \in {2, 3}

(* ------------------------------------------------- points over F_p^2 (G2) *)
(* F_p^2 = F_p[i]/(i^2 = q): elements <<a0, a1>>; curve c = [p, q, a, b] with  *)
(* a, b in F_p^2; points [inf, x, y] with x, y in F_p^2.  Wire format:        *)
(* 0 | 2+s x0 x1 | 4 x0 x1 y0 y1, s = the IETF sign of y: sign_Fp(y0) if       *)
(* y1 = 0, else sign_Fp(y1), sign_Fp(v) = 1 iff v > (p-1)/2.                   *)
F2Zero == <<<<>>, <<>>>>
F2Add(a, b, c) == <<FAdd(a[1], b[1], c.p), FAdd(a[2], b[2], c.p)>>
F2Neg(a, c)    == <<FNeg(a[1], c.p), FNeg(a[2], c.p)>>
F2Mul(a, b, c) == <<FAdd(FMul(a[1], b[1], c.p), FMul(c.q, FMul(a[2], b[2], c.p), c.p), c.p),
                    FAdd(FMul(a[1], b[2], c.p), FMul(a[2], b[1], c.p), c.p)>>
F2Sqr(a, c)    == F2Mul(a, a, c)
F2Norm(a, c)   == FSub(FSqr(a[1], c.p), FMul(c.q, FSqr(a[2], c.p), c.p), c.p)
F2Inv(a, c)    == LET n == FInv(F2Norm(a, c), c.p) IN
                  <<FMul(a[1], n, c.p), FMul(FNeg(a[2], c.p), n, c.p)>>
(* a is a square in F_p^2 iff its norm is a square in F_p *)
F2IsSquare(a, c) == a = F2Zero \/ FLegendre(F2Norm(a, c), c.p) = 1
In2(a, p) == InField(a[1], p) /\ InField(a[2], p)
Rhs2(x, c) == F2Add(F2Add(F2Mul(F2Sqr(x, c), x, c), F2Mul(c.a, x, c), c), c.b, c)
OnCurve2(P, c) == P.inf \/ (In2(P.x, c.p) /\ In2(P.y, c.p) /\ F2Sqr(P.y, c) = Rhs2(P.x, c))
SignFp(v, p) == IF BLt(BShr(p, 1), v) THEN 1 ELSE 0
(* sk = "ietf" is the specification; "y1only" only keys a known finding *)
Sign2(y, p, sk) == IF sk = "y1only" \/ y[2] # <<>> THEN SignFp(y[2], p) ELSE SignFp(y[1], p)
EncSize2(P, pack, fb) == IF P.inf THEN 1 ELSE IF pack THEN 2 * fb + 1 ELSE 4 * fb + 1
EncPoint2(P, pack, c, fb, sk) ==
    IF P.inf THEN <<0>>
    ELSE IF pack THEN <<2 + Sign2(P.y, c.p, sk)>> \o FpxEncBin(P.x, fb)
    ELSE <<4>> \o FpxEncBin(P.x, fb) \o FpxEncBin(P.y, fb)
(* F_p^2 elements: a0 a1 (2 fb bytes); a UNITARY element (norm a0^2 - q a1^2 = 1, *)
(* e.g. a pairing value for embedding degree 2) may be packed into a0 followed   *)
(* by ONE byte 0/1 = the sign bit (parity) of a1, fb + 1 bytes.  fc = [p, q].    *)
(* (The two lengths coincide for fb = 1: the format needs fb > 1.)               *)
F2One == <<<<1>>, <<>>>>
F2Unitary(a, fc) == F2Norm(a, fc) = <<1>>
Fp2EncSize(a, pack, fc, fb) == IF pack /\ F2Unitary(a, fc) THEN fb + 1 ELSE 2 * fb
Fp2Enc(a, pack, fc, fb, sg) ==
    IF pack /\ F2Unitary(a, fc) THEN BToBE(a[1], fb) \o <<SignBit(a[2], fc.p, sg)>>
    ELSE FpxEncBin(a, fb)
(* a1^2 = (a0^2 - 1) / q *)
Fp2PackedRhs(a0, fc) == FMul(FSub(FSqr(a0, fc.p), <<1>>, fc.p), FInv(fc.q, fc.p), fc.p)
Fp2Dec(s, fc, fb, sg) ==
    IF Len(s) = 2 * fb THEN FpxDecBin(s, fc.p, fb, 2)
    ELSE IF Len(s) = fb + 1 THEN
        LET a0 == BFromBE(SubSeq(s, 1, fb)) IN
        IF ~BLt(a0, fc.p) \/ s[fb + 1] \notin {0, 1} THEN Bad
        ELSE LET w == Fp2PackedRhs(a0, fc) IN
             IF ~FIsSquare(w, fc.p) THEN Bad
             ELSE LET r  == FSqrt(w, fc.p)
                      a1 == IF SignBit(r, fc.p, sg) = s[fb + 1] THEN r ELSE FNeg(r, fc.p)
                  IN  IF SignBit(a1, fc.p, sg) = s[fb + 1] THEN Ok(<<a0, a1>>) ELSE Bad
    ELSE Bad

(* which strings denote a point: "inf", "cmp", "unc", or "bad" (must be refused) *)
Dec2Class(s, c, fb) ==
    IF Len(s) = 1 THEN (IF s[1] = 0 THEN "inf" ELSE "bad")
    ELSE IF Len(s) = 2 * fb + 1 THEN
        LET x == FpxDecBin(SubSeq(s, 2, 2 * fb + 1), c.p, fb, 2) IN
        IF s[1] \notin {2, 3} \/ ~x.ok THEN "bad"
        ELSE LET w == Rhs2(x.v, c) IN
             IF F2IsSquare(w, c) /\ ~(w = F2Zero /\ s[1] = 3) THEN "cmp" ELSE "bad"
    ELSE IF Len(s) = 4 * fb + 1 THEN
        LET x == FpxDecBin(SubSeq(s, 2, 2 * fb + 1), c.p, fb, 2)
            y == FpxDecBin(SubSeq(s, 2 * fb + 2, 4 * fb + 1), c.p, fb, 2)
        IN  IF s[1] = 4 /\ x.ok /\ y.ok /\ OnCurve2([inf |-> FALSE, x |-> x.v, y |-> y.v], c) THEN "unc" ELSE "bad"
    ELSE "bad"
(* Q is THE point the string s (of class cl # "bad") denotes.  The compressed *)
(* form is characterised, not computed: abscissa, curve equation and sign    *)
(* determine the ordinate uniquely (MCCodec2 checks this).                   *)
IsDecPoint2(s, cl, Q, c, fb) ==
    IF cl = "inf" THEN Q.inf
    ELSE /\ ~Q.inf /\ OnCurve2(Q, c)
         /\ Q.x = FpxDecBin(SubSeq(s, 2, 2 * fb + 1), c.p, fb, 2).v
         /\ IF cl = "unc" THEN Q.y = FpxDecBin(SubSeq(s, 2 * fb + 2, 4 * fb + 1), c.p, fb, 2).v
            ELSE Sign2(Q.y, c.p, "ietf") = s[1] - 2

(* --------------------------------------------------- twisted Edwards points *)
(* a x^2 + y^2 = 1 + d x^2 y^2 over F_p, ec = [p, a, d]; points [inf, x, y]   *)
(* with inf = the neutral element (0, 1).  Wire format: 0 (1 byte) = neutral |*)
(* 2+s y (fb+1), s = sign bit (parity) of x | 4 y x (2fb+1).                  *)
EdNeutral == [inf |-> TRUE, x |-> <<>>, y |-> <<1>>]
EdPt(x, y) == IF x = <<>> /\ y = <<1>> THEN EdNeutral ELSE [inf |-> FALSE, x |-> x, y |-> y]
EdOnCurve(P, ec) ==
    /\ InField(P.x, ec.p) /\ InField(P.y, ec.p)
    /\ LET x2 == FSqr(P.x, ec.p)
           y2 == FSqr(P.y, ec.p)
       IN  FAdd(FMul(ec.a, x2, ec.p), y2, ec.p) = FAdd(<<1>>, FMul(ec.d, FMul(x2, y2, ec.p), ec.p), ec.p)
EdEncSize(P, pack, fb) == IF P.inf THEN 1 ELSE IF pack THEN fb + 1 ELSE 2 * fb + 1
EdEnc(P, pack, ec, fb, sg) ==
    IF P.inf THEN <<0>>
    ELSE IF pack THEN <<2 + SignBit(P.x, ec.p, sg)>> \o BToBE(P.y, fb)
    ELSE <<4>> \o BToBE(P.y, fb) \o BToBE(P.x, fb)
(* x^2 = (y^2 - 1) / (d y^2 - a) *)
EdDecompress(y, bit, ec, sg) ==
    LET den == FSub(FMul(ec.d, FSqr(y, ec.p), ec.p), ec.a, ec.p) IN
    IF den = <<>> THEN Bad
    ELSE LET u == FMul(FSub(FSqr(y, ec.p), <<1>>, ec.p), FInv(den, ec.p), ec.p) IN
         IF ~FIsSquare(u, ec.p) THEN Bad
         ELSE LET r == FSqrt(u, ec.p)
                  x == IF SignBit(r, ec.p, sg) = bit THEN r ELSE FNeg(r, ec.p)
              IN  IF SignBit(x, ec.p, sg) = bit THEN Ok(EdPt(x, y)) ELSE Bad
(* the neutral element has ONE encoding (0): its long forms are not canonical *)
EdDec(s, ec, fb, sg) ==
    IF Len(s) = 1 THEN (IF s[1] = 0 THEN Ok(EdNeutral) ELSE Bad)
    ELSE IF Len(s) = fb + 1 THEN
        IF s[1] \notin {2, 3} THEN Bad
        ELSE LET y == BFromBE(SubSeq(s, 2, fb + 1)) IN
             IF ~BLt(y, ec.p) THEN Bad
             ELSE LET d == EdDecompress(y, s[1] - 2, ec, sg) IN
                  IF d.ok /\ ~d.v.inf THEN d ELSE Bad
    ELSE IF Len(s) = 2 * fb + 1 THEN
        IF s[1] # 4 THEN Bad
        ELSE LET y == BFromBE(SubSeq(s, 2, fb + 1))
                 x == BFromBE(SubSeq(s, fb + 2, 2 * fb + 1))
             IN  IF BLt(x, ec.p) /\ BLt(y, ec.p) /\ EdOnCurve(EdPt(x, y), ec) /\ ~EdPt(x, y).inf
                 THEN Ok(EdPt(x, y)) ELSE Bad
    ELSE Bad

(* ep_pck / ep_upk on abstract values: <<x, bit>> *)
Pck(P, c, sg) == <<P.x, SignBit(P.y, c.p, sg)>>
Upk(x, bit, c, sg) == Decompress(x, bit, c, sg)
=============================================================================
