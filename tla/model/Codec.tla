-------------------------------- MODULE Codec --------------------------------
(***************************************************************************)
(* The external representations of RELIC objects (C07) as TLA+ operators   *)
(* on BYTE STRINGS (Seq(0..255) in wire order):                            *)
(*   integers      big-endian binary of a given length, digit vectors,     *)
(*                 text in radix 2..64 (sign, digit alphabet               *)
(*                 0-9 A-Z a-z + /, NUL terminator)                        *)
(*   field elems   exactly fb = RLC_FP_BYTES big-endian bytes, value < p;  *)
(*                 text form through the integer one                       *)
(*   extensions    concatenation of the coefficients                       *)
(*   curve points  0 (1 byte) = infinity | 2+s x (fb+1) | 4 x y (2fb+1)     *)
(* Enc.. is total on valid values, Dec.. returns Ok(v) or Bad.  Values are  *)
(* the abstract ones of lib/BigInt, lib/Field, lib/Curve.  MCCodec checks  *)
(* the definitions (round trips, canonicity, Dec accepts exactly the image *)
(* of Enc); CodecSpec binds the C functions to them.                       *)
(***************************************************************************)
EXTENDS Curve, BigInt

Ok(v) == [ok |-> TRUE, v |-> v]
Bad   == [ok |-> FALSE, v |-> <<>>]

IsByteStr(s) == \A i \in 1..Len(s) : s[i] \in 0..255
Concat(ss) == LET RECURSIVE cc(_)
                  cc(i) == IF i > Len(ss) THEN <<>> ELSE ss[i] \o cc(i + 1)
              IN  cc(1)

(* ------------------------------------------------------------ integers *)
(* binary: magnitude, big-endian, left-padded with zeros to the buffer length *)
BnSizeBin(v)     == BLenBytes(v)
BnEncBin(v, len) == IF len < BnSizeBin(v) THEN Bad ELSE Ok(BToBE(v, len))
BnDecBin(s)      == BFromBE(s)                       \* total: every string is a natural

(* digit vector of w-byte digits (least significant first), here as bytes *)
BnSizeRaw(v, w)     == Max(1, (BLenBytes(v) + w - 1) \div w)
BnEncRaw(v, len, w) == IF len < BnSizeRaw(v, w) THEN Bad
                       ELSE Ok(BNorm(v) \o Zeros(len * w - Len(BNorm(v))))
BnDecRaw(bytes)     == BNorm(bytes)

(* ---------------------------------------------------------------- text *)
ValidRadix(r) == r >= 2 /\ r <= 64
(* the digit alphabet: 0-9 A-Z a-z + /  (util_conv_char) *)
DigitChar(d) == IF d < 10 THEN 48 + d
                ELSE IF d < 36 THEN 65 + (d - 10)
                ELSE IF d < 62 THEN 97 + (d - 36)
                ELSE IF d = 62 THEN 43 ELSE 47
(* below radix 36 letters are case-insensitive *)
Fold(c, radix) == IF radix < 36 /\ c >= 97 /\ c <= 122 THEN c - 32 ELSE c
CharVal(c) == IF c >= 48 /\ c <= 57 THEN c - 48
              ELSE IF c >= 65 /\ c <= 90 THEN c - 55
              ELSE IF c >= 97 /\ c <= 122 THEN c - 61
              ELSE IF c = 43 THEN 62
              ELSE IF c = 47 THEN 63 ELSE 64
DigitOf(c, radix) == CharVal(Fold(c, radix))          \* a digit of the radix iff < radix
IsDigitCh(c, radix) == DigitOf(c, radix) < radix

(* positional notation: the value of a digit sequence, most significant first *)
RECURSIVE HornerR(_, _, _, _)
HornerR(ds, r, i, acc) == IF i > Len(ds) THEN acc
                          ELSE HornerR(ds, r, i + 1, BAdd(BMul(acc, r), BFromNat(ds[i])))
PosValue(ds, radix) == HornerR(ds, BFromNat(radix), 1, <<>>)

(* the digits of a natural, most significant first, none for zero *)
RECURSIVE NatDigitsR(_, _, _)
NatDigitsR(v, r, acc) == IF v = <<>> THEN acc
                         ELSE LET qr == BDivMod(v, r) IN
                              NatDigitsR(qr[1], r, <<BToNat(qr[2])>> \o acc)
NatDigits(v, radix) == NatDigitsR(BNorm(v), BFromNat(radix), <<>>)

(* the canonical numeral of a signed integer x (lib/BigInt record) *)
Numeral(x, radix) ==
    IF IIsZero(x) THEN <<48>>
    ELSE LET ds == NatDigits(x.mag, radix) IN
         (IF x.neg THEN <<45>> ELSE <<>>) \o [i \in 1..Len(ds) |-> DigitChar(ds[i])]
(* the advertised size: the numeral and its terminator *)
SizeStr(x, radix) == Len(Numeral(x, radix)) + 1
EncStr(x, radix, len) == IF ~ValidRadix(radix) THEN Bad
                         ELSE IF len < SizeStr(x, radix) THEN Bad
                         ELSE Ok(Numeral(x, radix) \o <<0>>)

(* reading: optional '-', then the longest run of digits of the radix (it   *)
(* ends at the terminator, at any other character or at the buffer end)     *)
RECURSIVE RunLen(_, _, _)
RunLen(s, radix, j) == IF j > Len(s) THEN 0
                       ELSE IF IsDigitCh(s[j], radix) THEN 1 + RunLen(s, radix, j + 1) ELSE 0
StrNeg(s)   == Len(s) >= 1 /\ s[1] = 45
StrStart(s) == IF StrNeg(s) THEN 2 ELSE 1
StrDigits(s, radix) == LET st == StrStart(s)
                           n  == RunLen(s, radix, st)
                       IN  [k \in 1..n |-> DigitOf(s[st + k - 1], radix)]
DecStr(s, radix) == IF ~ValidRadix(radix) THEN Bad
                    ELSE Ok(I(StrNeg(s), PosValue(StrDigits(s, radix), radix)))
(* s (without terminator) is a numeral: sign, at least one digit, nothing else *)
IsNumeral(s, radix) == LET st == StrStart(s) IN
                       Len(s) >= st /\ RunLen(s, radix, st) = Len(s) - st + 1
(* ... the canonical one: alphabet characters, no leading zero, no "-0" *)
IsCanonNumeral(s, radix) ==
    /\ IsNumeral(s, radix)
    /\ \A j \in StrStart(s)..Len(s) : s[j] = DigitChar(DigitOf(s[j], radix))
    /\ (s[StrStart(s)] = 48 => (Len(s) = 1))

(* ------------------------------------------------------- field elements *)
FpEncBin(v, fb)    == BToBE(v, fb)
FpDecBin(s, p, fb) == IF Len(s) # fb THEN Bad
                      ELSE LET v == BFromBE(s) IN IF BLt(v, p) THEN Ok(v) ELSE Bad
(* text form: the numeral of the residue; reading reduces modulo p *)
FpDecStr(s, radix, p) == LET d == DecStr(s, radix) IN
                         IF d.ok THEN Ok(FFromInt(d.v.neg, d.v.mag, p)) ELSE Bad

(* extension-field elements: d coefficients (a sequence of residues), concatenated *)
FpxEncBin(cs, fb) == Concat([i \in 1..Len(cs) |-> BToBE(cs[i], fb)])
FpxDecBin(s, p, fb, d) ==
    IF Len(s) # d * fb THEN Bad
    ELSE LET cs == [i \in 1..d |-> BFromBE(SubSeq(s, (i - 1) * fb + 1, i * fb))] IN
         IF \A i \in 1..d : BLt(cs[i], p) THEN Ok(cs) ELSE Bad

(* ------------------------------------------------------------ square roots *)
(* Tonelli-Shanks for an odd prime p; a must be a square; used to DEFINE the *)
(* decompressed ordinate (MCCodec checks FSqrt against squaring)            *)
RECURSIVE TwoAdicR(_, _)
TwoAdicR(q, s) == IF BBit(q, 0) = 1 THEN <<q, s>> ELSE TwoAdicR(BShr(q, 1), s + 1)
RECURSIVE NonResidueR(_, _)
NonResidueR(z, p) == IF FLegendre(z, p) = 0 - 1 THEN z ELSE NonResidueR(BAdd(z, <<1>>), p)
RECURSIVE OrderExpR(_, _, _)
OrderExpR(t, i, p) == IF t = <<1>> THEN i ELSE OrderExpR(FSqr(t, p), i + 1, p)
RECURSIVE SqrN(_, _, _)
SqrN(b, n, p) == IF n = 0 THEN b ELSE SqrN(FSqr(b, p), n - 1, p)
RECURSIVE TSLoop(_, _, _, _, _)
TSLoop(m, c, t, r, p) ==
    IF t = <<1>> THEN r
    ELSE LET i  == OrderExpR(t, 0, p)
             b  == SqrN(c, m - i - 1, p)
             c2 == FSqr(b, p)
         IN  TSLoop(i, c2, FMul(t, c2, p), FMul(r, b, p), p)
FSqrt(a, p) ==
    IF a = <<>> THEN <<>>
    ELSE LET qs == TwoAdicR(BSub(p, <<1>>), 0)
             q  == qs[1]
             z  == NonResidueR(<<2>>, p)
         IN  TSLoop(qs[2], BModExp(z, q, p), BModExp(a, q, p),
                    BModExp(a, BShr(BAdd(q, <<1>>), 1), p), p)

(* ---------------------------------------------------------------- points *)
(* the bit that selects the ordinate in the compressed form:               *)
(*   "parity"  y mod 2                 (SEC 1, ordinary curves)            *)
(*   "half"    y > (p-1)/2             (pairing-friendly curves, IETF)     *)
(*   "mont"    (y * sg.r mod p) mod 2  - parity of a Montgomery            *)
(*             representation; NOT part of the specification, only used to *)
(*             key a known finding (CodecSpec)                             *)
SgParity == [kind |-> "parity", r |-> <<1>>]
SgHalf   == [kind |-> "half", r |-> <<1>>]
SgMont(r) == [kind |-> "mont", r |-> r]
SignBit(y, p, sg) == IF sg.kind = "half" THEN (IF BLt(BShr(p, 1), y) THEN 1 ELSE 0)
                     ELSE IF sg.kind = "mont" THEN BBit(FMul(y, sg.r, p), 0)
                     ELSE BBit(y, 0)

ValidPoint(P, c) == OnCurve(P, c)
EncSize(P, pack, fb) == IF P.inf THEN 1 ELSE IF pack THEN fb + 1 ELSE 2 * fb + 1
EncPoint(P, pack, c, fb, sg) ==
    IF P.inf THEN <<0>>
    ELSE IF pack THEN <<2 + SignBit(P.y, c.p, sg)>> \o BToBE(P.x, fb)
    ELSE <<4>> \o BToBE(P.x, fb) \o BToBE(P.y, fb)

(* the ordinate over x selected by bit, or Bad: x has no point, or the only *)
(* ordinate is 0 and the bit asks for the other one                         *)
Decompress(x, bit, c, sg) ==
    IF ~HasPointWithX(x, c) THEN Bad
    ELSE LET r == FSqrt(Rhs(x, c), c.p)
             y == IF SignBit(r, c.p, sg) = bit THEN r ELSE FNeg(r, c.p)
         IN  IF SignBit(y, c.p, sg) = bit THEN Ok(Pt(x, y)) ELSE Bad

DecPoint(s, c, fb, sg) ==
    IF Len(s) = 1 THEN (IF s[1] = 0 THEN Ok(PInf) ELSE Bad)
    ELSE IF Len(s) = fb + 1 THEN
        IF s[1] \notin {2, 3} THEN Bad
        ELSE LET x == BFromBE(SubSeq(s, 2, fb + 1)) IN
             IF ~BLt(x, c.p) THEN Bad ELSE Decompress(x, s[1] - 2, c, sg)
    ELSE IF Len(s) = 2 * fb + 1 THEN
        IF s[1] # 4 THEN Bad
        ELSE LET x == BFromBE(SubSeq(s, 2, fb + 1))
                 y == BFromBE(SubSeq(s, fb + 2, 2 * fb + 1))
             IN  IF BLt(x, c.p) /\ BLt(y, c.p) /\ OnCurve(Pt(x, y), c) THEN Ok(Pt(x, y)) ELSE Bad
    ELSE Bad
(* the format (pack flag) a non-infinity encoding was written in *)
PackOf(s) == s[1] \in {2, 3}

(* ep_pck / ep_upk on abstract values: <<x, bit>> *)
Pck(P, c, sg) == <<P.x, SignBit(P.y, c.p, sg)>>
Upk(x, bit, c, sg) == Decompress(x, bit, c, sg)
=============================================================================
