------------------------------ MODULE Codec3Spec ------------------------------
(***************************************************************************)
(* C07, third part, at the level of one public call: the binary codecs of  *)
(* extension-field elements (fpN_size_bin / fpN_write_bin / fpN_read_bin,   *)
(* N = 3 .. 54) and of target-group elements (gt_size_bin / gt_write_bin /  *)
(* gt_read_bin: the dodecic tower of the pairing build), and fp12_pck /     *)
(* fp12_upk.  Events come from harness/drv_codec3.c.  The format is the one *)
(* of model/CodecX (checked by MCCodecX); the tower of the event is built   *)
(* from the constants the event carries (model/FpxSpec: TowerOf), and       *)
(* membership in the cyclotomic subgroup is FpxSpec!InCyc (x # 0 and        *)
(* x^Phi_n(p) = 1 through the Frobenius).                                   *)
(*   size_bin   e.size = XSize(n, pack, cyclotomic)                          *)
(*   write_bin  the advertised size is XSize; a buffer shorter than that is  *)
(*              an error; one of exactly that length receives XEnc(x); a     *)
(*              longer one is refused or receives XEnc(x) in its first bytes;*)
(*              the guards around the buffer survive; the operand does too   *)
(*   read_bin   XDec(in) = Bad: an error.  XDec(in) = Ok(v): no error, the   *)
(*              object is v with canonical coefficients, its re-encoding in  *)
(*              the same format and length reproduces the input and its      *)
(*              advertised size in that format is the input length           *)
(*   pck / upk  on tower elements: the kept coefficients / the completion    *)
(***************************************************************************)
EXTENDS FpxSpec, CodecX

CClean(e)  == e.err = 0 /\ e.code = 0
CFailed(e) == e.err # 0 /\ e.code = 1
CBufErr(e) == CFailed(e) /\ e.err \in {e.eb, e.em}
CPrefix(s, n) == SubSeq(s, 1, n)
IsApiOp(e) == e.op \in {"size_bin", "write_bin", "read_bin", "gt_size_bin", "gt_write_bin", "gt_read_bin", "pck", "upk"}

(* context of an event *)
C3Ctx(e) == LET ri == RInv(e)
              T  == TowerOf(e, ri, e.lvl)
          IN  [ri |-> ri, T |-> T]
CycEl(e, c, flat) == InCyc(c.T, FrbConsts(c.T), e.lvl, TUnflat(c.T, Top(c.T), flat))
(* raw coefficient vector = flat value *)
IsFlat(e, c, raw, flat) == Len(raw) = e.lvl /\ CanonAll(e, raw) /\ AbsSeq(e, c.ri, raw, 1) = flat

(* v = variant of the implementation; the specification is StrictW; the others only key findings *)
StrictW == "strict"

WriteLike(e, v) ==
    LET c    == C3Ctx(e)
        n    == e.lvl
        flat == AbsSeq(e, c.ri, e.a, 1)
        pk   == e.pack # 0 /\ e.packarg = 1
        cyc  == IF pk /\ (XKind(n) # "none" \/ n \in {8, 16}) THEN CycEl(e, c, flat) ELSE FALSE
        z    == XSize(n, pk, cyc, e.fb)
        enc  == XEnc(flat, n, pk, cyc, e.fb)
        \* the variants
        zsz  == IF v = "fp8size" /\ cyc THEN (n \div 2) * e.fb ELSE z          \* what size_bin reports
    IN  /\ Len(e.a) = n /\ CanonAll(e, e.a) /\ e.unch
        /\ e.size = zsz
        /\ IF e.op \in {"size_bin", "gt_size_bin"} THEN CClean(e)
           ELSE /\ e.g = 1
                /\ IF v = "packnoncyc"
                   THEN \* pack requested for an element outside the subgroup: the short form is written
                        \* (it does not determine the element), the advertised full length is refused
                        /\ pk /\ XKind(n) # "none" /\ ~cyc
                        /\ IF e.len = ((2 * n) \div 3) * e.fb
                           THEN CClean(e) /\ e.out = XEncFlat(XKeptCoefs(flat, n, XKind(n)), e.fb)
                           ELSE CBufErr(e)
                   ELSE IF e.len < z THEN CBufErr(e)
                   ELSE IF e.len = z THEN CClean(e) /\ e.out = enc
                   ELSE CBufErr(e) \/ (CClean(e) /\ CPrefix(e.out, z) = enc)

ReadLike(e, v) ==
    LET c   == C3Ctx(e)
        n   == e.lvl
        T   == c.T
        d   == XDec(e.in, T, n, e.fb, LAMBDA y : InCyc(T, FrbConsts(T), n, y))
        pkl == XKind(n) # "none" /\ Len(e.in) = ((2 * n) \div 3) * e.fb
        kc  == XCoefs(e.in, e.fb, (2 * n) \div 3, 1)
        Accepted(flat) == /\ CClean(e) /\ IsFlat(e, c, e.c, flat)
                          /\ e.rerr = 0 /\ e.re = e.in /\ e.g = 1
    IN  IF v = StrictW THEN
            IF ~d.ok THEN CFailed(e)
            ELSE Accepted(d.v) /\ e.rsize = Len(e.in)
        ELSE IF v = "unity" THEN
            \* the packed form of the unit element (all coefficients zero) is refused
            pkl /\ XAllZero(kc) /\ CFailed(e)
        ELSE IF v = "notcyc" THEN
            \* a packed string whose completion is not in the subgroup is accepted as that completion;
            \* the object then advertises the full size
            /\ pkl /\ XInRange(kc, T.p) /\ ~d.ok
            /\ ~(XAllZero(XKeptBlock(kc, n \div 6, XKind(n), 1)) /\ XAllZero(XKeptBlock(kc, n \div 6, XKind(n), 4)))
            /\ Accepted(XComplete(T, n, kc)) /\ e.rsize = n * e.fb
        ELSE FALSE

(* fp12_pck / fp12_upk on elements (c = out of place, c2 = in place) *)
PckLike(e) ==
    LET c    == C3Ctx(e)
        n    == e.lvl
        T    == c.T
        flat == AbsSeq(e, c.ri, e.a, 1)
        kind == XKind(n)
        m    == n \div 6
        RECURSIVE zeroed(_)
        zeroed(b) == IF b > 5 THEN <<>> ELSE (IF XKept(kind, b) THEN XBlock(flat, m, b) ELSE XZeros(m)) \o zeroed(b + 1)
        packed == XAllZero(XBlock(flat, m, XBlockOfPow(kind, 0))) /\ XAllZero(XBlock(flat, m, XBlockOfPow(kind, 3)))
    IN  /\ Len(e.a) = n /\ CanonAll(e, e.a) /\ e.unch /\ CClean(e) /\ e.err2 = 0 /\ e.ret2 = e.ret
        /\ ((e.op = "pck" \/ e.ret = 1) => e.c2 = e.c)        \* a refused element leaves the result unspecified
        /\ IF e.op = "pck"
           THEN IsFlat(e, c, e.c, IF CycEl(e, c, flat) THEN zeroed(0) ELSE flat)
           ELSE IF ~packed THEN e.ret = 1 /\ IsFlat(e, c, e.c, flat)
           ELSE LET d == XDecPacked(XKeptCoefs(flat, n, kind), T, n, LAMBDA y : InCyc(T, FrbConsts(T), n, y)) IN
                IF d.ok THEN e.ret = 1 /\ IsFlat(e, c, e.c, d.v) ELSE e.ret = 0

(* fp12_upk on a packed element with g2 = g3 = 0 (the packed unit element, or no element): an error is thrown *)
(* instead of the unit element / the return value 0                                                         *)
UpkZeroVariant(e) ==
    LET c    == C3Ctx(e)
        n    == e.lvl
        flat == AbsSeq(e, c.ri, e.a, 1)
        m    == n \div 6
        kind == XKind(n)
        Z(k) == XAllZero(XBlock(flat, m, XBlockOfPow(kind, k)))
    IN  /\ e.op = "upk" /\ Len(e.a) = n /\ CanonAll(e, e.a) /\ e.unch
        /\ Z(0) /\ Z(3) /\ Z(1) /\ Z(4)
        /\ CFailed(e) /\ e.err2 # 0

Codec3V(e, v) ==
    IF e.op \in {"size_bin", "write_bin", "gt_size_bin", "gt_write_bin"} THEN WriteLike(e, v)
    ELSE IF e.op \in {"read_bin", "gt_read_bin"} THEN ReadLike(e, v)
    ELSE IF e.op \in {"pck", "upk"} THEN v = StrictW /\ PckLike(e)
    ELSE FALSE

Codec3Accept(e) == IsApiOp(e) /\ Codec3V(e, StrictW)

(***************************************************************************)
(* Known findings: each variant is one deviation of the pinned code from   *)
(* the format, keyed by operation, input class and the exact wrong outcome *)
(*  C07-fpx-write-bin-pack-not-cyclotomic  fp12/18/24/48/54_write_bin with  *)
(*      pack = 1 on an element outside the cyclotomic subgroup: size_bin     *)
(*      advertises the full length, write_bin refuses it and writes the     *)
(*      four kept coefficients (which do not determine the element) into a   *)
(*      buffer of the packed length                                          *)
(*  C07-fpx-read-bin-packed-unity   the packed form of 1 (all zero) is       *)
(*      refused by fpN_read_bin / gt_read_bin, and fp12_upk throws on        *)
(*      g2 = g3 = 0 (inverse of zero in fpN_back_cyc)                        *)
(*  C07-fpx-read-bin-packed-not-cyclotomic  a packed string whose           *)
(*      completion is outside the subgroup is accepted                       *)
(*  C07-fp8-fp16-size-bin-pack   fp8/fp16_size_bin(a, 1) advertise half the  *)
(*      length for cyclotomic a although write_bin has no packed form        *)
(***************************************************************************)
Codec3KnownKeys(e) ==
    IF ~IsApiOp(e) THEN {}
    ELSE (IF e.op \in {"write_bin", "gt_write_bin"} /\ Codec3V(e, "packnoncyc") THEN {"C07-fpx-write-bin-pack-not-cyclotomic"} ELSE {})
    \cup (IF e.op \in {"read_bin", "gt_read_bin"} /\ Codec3V(e, "unity") THEN {"C07-fpx-read-bin-packed-unity"} ELSE {})
    \cup (IF e.op \in {"read_bin", "gt_read_bin"} /\ Codec3V(e, "notcyc") THEN {"C07-fpx-read-bin-packed-not-cyclotomic"} ELSE {})
    \cup (IF e.op = "upk" /\ UpkZeroVariant(e) THEN {"C07-fpx-read-bin-packed-unity"} ELSE {})
    \cup (IF e.op \in {"size_bin", "write_bin"} /\ e.lvl \in {8, 16} /\ Codec3V(e, "fp8size") THEN {"C07-fp8-fp16-size-bin-pack"} ELSE {})
=============================================================================
