CONSTANT Polys = {67, 131}
CONSTANT AMax = 1
CONSTANT Tags = {0, 2, 3, 4}
CONSTANT Extra = {255}
SPECIFICATION Spec
INVARIANT PointCodec
INVARIANT FieldCodec
CHECK_DEADLOCK FALSE
