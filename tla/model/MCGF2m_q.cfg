CONSTANT Polys = {11, 19, 37, 131}
CONSTANT IrrMax = 600
INIT Init
NEXT Next
INVARIANT Correct
CHECK_DEADLOCK FALSE
