CONSTANTS p = 7
 usq = 6
 ASet = "some"
 BSet = "half"
 AssocAll = FALSE
 AssocStep = 10
 MaxK = 10
SPECIFICATION Spec
INVARIANT Check
CHECK_DEADLOCK FALSE
