CONSTANTS p = 7
 usq = 6
 ASet = "some"
 AssocAll = FALSE
 AssocStep = 8
 MaxK = 16
SPECIFICATION Spec
INVARIANT Check
CHECK_DEADLOCK FALSE
