----------------------------- MODULE EdFormulas -----------------------------
(***************************************************************************)
(* Design-level model for C17: the formula programs of RELIC's ed module   *)
(* AS CODED, transcribed register by register over native integers mod p,  *)
(* checked against the affine unified law for EVERY complete twisted       *)
(* Edwards curve over F_p (p in Primes; a a square, d a non-square), every *)
(* ordered pair of curve points and every pair of projective               *)
(* representations (Z1, Z2 in Zs); one state per (curve, Z1, Z2).          *)
(*                                                                         *)
(*   src/ed/relic_ed_add.c   ed_add_basic, ed_add_projc (bbjlp-2008),      *)
(*                           ed_add_extnd (hwcd-2008 unified, with T),     *)
(*                           ed_sub_* = negate + add                       *)
(*   src/ed/relic_ed_dbl.c   ed_dbl_basic, ed_dbl_projc, ed_dbl_extnd      *)
(*   src/ed/relic_ed_neg.c   ed_neg_basic, ed_neg_projc (T negated in      *)
(*                           EXTND builds only)                            *)
(*   src/ed/relic_ed_norm.c  ed_norm_imp (T scaled in EXTND builds)        *)
(*   src/ed/relic_ed_cmp.c   cross-multiplied comparison (incl. T)         *)
(*   src/ed/relic_ed_util.c  ed_is_infty, ed_on_curve (incl. the T check), *)
(*                           ed_set_infty, projective -> extended          *)
(*                           conversion used by ed_read_bin / ed_map       *)
(*                           (T = X Y, X = X Z, Y = Y Z, Z = Z^2)          *)
(*   (the pinned revision has no ed_projc_to_extnd function and no mixed-  *)
(*   addition shortcut: the unified formulas are used for every operand)   *)
(*                                                                         *)
(* Invariants: every program output represents the affine sum / double /   *)
(* negative (Z3 # 0, X3 = x3 Z3, Y3 = y3 Z3); every extended output has    *)
(* T3 Z3 = X3 Y3; aliasing-relevant read-after-write order is the coded    *)
(* one (each register assignment below is one fp_* call of the source);    *)
(* the native affine law used here equals lib/Edwards.EAdd on BigNat.      *)
(***************************************************************************)
EXTENDS Edwards, Integers, FiniteSets, TLC
CONSTANTS Primes, Zs
VARIABLES p, a, d, z1, z2
vars == <<p, a, d, z1, z2>>

IsSq(v) == \E x \in 1..(p - 1) : (x * x) % p = v
Init == /\ p \in Primes /\ a \in 1..(p - 1) /\ d \in 1..(p - 1) /\ a # d
        /\ IsSq(a) /\ ~IsSq(d)
        /\ z1 \in {z \in Zs : z < p} /\ z2 \in {z \in Zs : z < p}
Next == UNCHANGED vars
Spec == Init /\ [][Next]_vars

(* ---- the field, native *)
M(x, y) == (x * y) % p
A(x, y) == (x + y) % p
S(x, y) == (x + p - y) % p
N(x) == (p - x) % p
RECURSIVE PowR(_, _)
PowR(x, n) == IF n = 0 THEN 1 ELSE M(x, PowR(x, n - 1))
Inv(x) == PowR(x, p - 2)                      \* fp_inv; 0 -> 0

(* ---- the definition: affine unified law (native) *)
OnCurve(x, y) == A(M(a, M(x, x)), M(y, y)) = A(1, M(d, M(M(x, x), M(y, y))))
Pts == {P \in (0..(p - 1)) \X (0..(p - 1)) : OnCurve(P[1], P[2])}
Plane == (0..(p - 1)) \X (0..(p - 1))
AffAdd(P, Q) ==
    LET t == M(d, M(M(P[1], Q[1]), M(P[2], Q[2])))
    IN  <<M(A(M(P[1], Q[2]), M(P[2], Q[1])), Inv(A(1, t))),
          M(S(M(P[2], Q[2]), M(a, M(P[1], Q[1]))), Inv(S(1, t)))>>
AffNeg(P) == <<N(P[1]), P[2]>>

(* ---- representations: <<X, Y, Z, T>> *)
Rep(P, z) == <<M(P[1], z), M(P[2], z), z, M(M(P[1], P[2]), z)>>
(* R represents the affine point W *)
Represents(R, W) == R[3] # 0 /\ R[1] = M(W[1], R[3]) /\ R[2] = M(W[2], R[3])
TValid(R) == M(R[4], R[3]) = M(R[1], R[2])

(* ---- programs as coded; r->t is left as it was (stale = 0 here) where the source does not write it *)
AddBasic(P, Q) ==          \* ed_add_basic: reads x, y; z copied from p
    LET t0a == M(P[1], Q[2])
        t1a == M(P[2], Q[1])
        t0b == A(t0a, t1a)
        t1b == M(P[1], Q[1])
        t2a == M(P[2], Q[2])
        t1c == M(t1b, t2a)
        t1d == M(t1c, d)
        t2b == A(t1d, 1)
        t2c == Inv(t2b)
        t1e == S(t1d, 1)
        t1f == N(t1e)
        t1g == Inv(t1f)
        t0c == M(t0b, t2c)
        ry1 == M(P[2], Q[2])
        t2d == M(P[1], Q[1])
        t2e == M(t2d, a)
        ry2 == S(ry1, t2e)
        ry3 == M(ry2, t1g)
    IN  <<t0c, ry3, P[3], 0>>

DblBasic(P) ==             \* ed_dbl_basic
    LET t0a == M(P[1], P[2])
        t1a == M(t0a, t0a)
        t1b == M(t1a, d)
        t2a == A(t1b, 1)
        t2b == Inv(t2a)
        t1c == S(t1b, 1)
        t1d == N(t1c)
        t1e == Inv(t1d)
        t0b == A(t0a, t0a)
        t0c == M(t0b, t2b)
        t2c == M(P[1], P[1])
        t2d == M(t2c, a)
        ry1 == M(P[2], P[2])
        ry2 == S(ry1, t2d)
        ry3 == M(ry2, t1e)
    IN  <<t0c, ry3, P[3], 0>>

AddProjc(P, Q) ==          \* ed_add_projc
    LET t0 == M(P[3], Q[3])                 \* A = z1 z2
        t1 == M(t0, t0)                     \* B = A^2
        t2 == M(P[1], Q[1])                 \* C = x1 x2
        t3 == M(P[2], Q[2])                 \* D = y1 y2
        t4a == M(d, t2)
        t4 == M(t4a, t3)                    \* E = d C D
        t5 == S(t1, t4)                     \* F = B - E
        t6 == A(t1, t4)                     \* G = B + E
        t7 == M(t0, t5)
        rz1 == A(P[1], P[2])
        rx1 == A(Q[1], Q[2])
        rx2 == M(rz1, rx1)
        rx3 == S(rx2, t2)
        rx4 == S(rx3, t3)
        rx5 == M(t7, rx4)                   \* x3 = A F ((x1 + y1)(x2 + y2) - C - D)
        rz2 == M(t0, t6)
        ry1 == M(a, t2)
        ry2 == S(t3, ry1)
        ry3 == M(rz2, ry2)                  \* y3 = A G (D - a C)
        rz3 == M(t5, t6)                    \* z3 = F G
    IN  <<rx5, ry3, rz3, 0>>

DblProjc(P) ==             \* ed_dbl_projc
    LET t0a == A(P[1], P[2])
        t0 == M(t0a, t0a)                   \* B = (x1 + y1)^2
        t1 == M(P[1], P[1])                 \* C
        t2 == M(P[2], P[2])                 \* D
        t3 == M(a, t1)                      \* E = a C
        t4 == A(t3, t2)                     \* F = E + D
        t5 == M(P[3], P[3])                 \* H = Z^2
        t6a == A(t5, t5)
        t6 == S(t4, t6a)                    \* J = F - 2H
        rx1 == S(t0, t1)
        rx2 == S(rx1, t2)
        rx3 == M(rx2, t6)                   \* x3 = (B - C - D) J
        ry1 == S(t3, t2)
        ry2 == M(t4, ry1)                   \* y3 = F (E - D)
        rz == M(t4, t6)                     \* z3 = F J
    IN  <<rx3, ry2, rz, 0>>

AddExtnd(P, Q) ==          \* ed_add_extnd (reads t of both operands)
    LET t0 == M(P[1], Q[1])                 \* A = x1 x2
        t1 == M(P[2], Q[2])                 \* B = y1 y2
        t2a == M(d, P[4])
        rt1 == M(t2a, Q[4])                 \* C = d t1 t2
        rz1 == M(P[3], Q[3])                \* D = z1 z2
        t2b == A(P[1], P[2])
        t3a == A(Q[1], Q[2])
        t2c == M(t2b, t3a)
        t2d == S(t2c, t0)
        t2 == S(t2d, t1)                    \* E
        t3 == S(rz1, rt1)                   \* F = D - C
        t4 == A(rz1, rt1)                   \* G = D + C
        rx1 == M(a, t0)
        rz2 == S(t1, rx1)                   \* H = B - a A
        rx == M(t2, t3)                     \* x3 = E F
        ry == M(t4, rz2)                    \* y3 = G H
        rt == M(t2, rz2)                    \* t3 = E H
        rz == M(t3, t4)                     \* z3 = F G
    IN  <<rx, ry, rz, rt>>

DblExtnd(P) ==             \* ed_dbl_extnd (does not read t)
    LET t0 == M(P[1], P[1])                 \* A
        t1 == M(P[2], P[2])                 \* B
        rz1a == M(P[3], P[3])
        rz1 == A(rz1a, rz1a)                \* C = 2 Z^2
        rt1 == M(a, t0)                     \* D = a A
        t2a == A(P[1], P[2])
        t2b == M(t2a, t2a)
        t2c == S(t2b, t0)
        t2 == S(t2c, t1)                    \* E
        t4 == A(rt1, t1)                    \* G = D + B
        t3 == S(t4, rz1)                    \* F = G - C
        rz2 == S(rt1, t1)                   \* H = D - B
        rx == M(t2, t3)
        ry == M(t4, rz2)
        rt == M(t2, rz2)
        rz == M(t3, t4)
    IN  <<rx, ry, rz, rt>>

SetInfty == <<0, 1, 1, 0>>
IsInftyBasic(P) == P[1] = 0 /\ P[2] = 1            \* tag BASIC
IsInftyProj(P) == P[1] = 0 /\ P[2] = P[3]          \* any other tag
NegBasic(P) == IF IsInftyBasic(P) THEN SetInfty ELSE <<N(P[1]), P[2], P[3], P[4]>>       \* z, t not written
NegProjc(P, ext) == IF IsInftyProj(P) THEN SetInfty
                    ELSE <<N(P[1]), P[2], P[3], IF ext THEN N(P[4]) ELSE P[4]>>
NormImp(P, ext) == LET zi == Inv(P[3]) IN <<M(P[1], zi), M(P[2], zi), 1, IF ext THEN M(P[4], zi) ELSE P[4]>>
(* ed_cmp for two non-affine-tagged operands: TRUE = RLC_EQ *)
CmpProj(P, Q, ext) == /\ M(P[1], Q[3]) = M(Q[1], P[3]) /\ M(P[2], Q[3]) = M(Q[2], P[3])
                      /\ (ext => M(P[4], Q[3]) = M(Q[4], P[3]))
(* ... when one of them is affine-tagged: normalise the other, compare x, y *)
CmpMixed(P, Q, ext) == LET r == NormImp(P, ext) IN r[1] = Q[1] /\ r[2] = Q[2]
(* ed_on_curve on a projective operand *)
OnCurveProg(P, ext) ==
    IF P[3] = 0 THEN FALSE
    ELSE LET t == NormImp(P, ext)
             c1 == (ext => M(t[1], t[2]) = t[4])
             tz == M(t[2], t[2])
             tt1 == M(t[1], t[1])
             tt2 == M(tt1, d)
             tt3 == S(tt2, 1)
             tt4 == M(tt3, tz)                          \* y^2 (d x^2 - 1)
             rhs == S(M(M(t[1], t[1]), a), 1)           \* ed_rhs: a x^2 - 1
         IN  (c1 /\ tt4 = rhs) \/ IsInftyProj(P)
(* projective -> extended as in ed_read_bin / ed_map_dst / ed_map_ell2_5mod8 *)
ToExtnd(P) == <<M(P[1], P[3]), M(P[2], P[3]), M(P[3], P[3]), M(P[1], P[2])>>

(* ---- the checks *)
AddOk ==
    \A P, Q \in Pts :
        LET W == AffAdd(P, Q)
            p1 == Rep(P, z1)
            q1 == Rep(Q, z2)
        IN  /\ W \in Pts
            /\ Represents(AddProjc(p1, q1), W)
            /\ Represents(AddExtnd(p1, q1), W) /\ TValid(AddExtnd(p1, q1))
            /\ (z1 = 1 /\ z2 = 1 => Represents(AddBasic(p1, q1), W))
            \* subtraction = negate the second operand (T negated: EXTND build) and add
            /\ Represents(AddProjc(p1, NegProjc(q1, FALSE)), AffAdd(P, AffNeg(Q)))
            /\ Represents(AddExtnd(p1, NegProjc(q1, TRUE)), AffAdd(P, AffNeg(Q)))
            /\ TValid(AddExtnd(p1, NegProjc(q1, TRUE)))
            /\ (z1 = 1 /\ z2 = 1 => Represents(AddBasic(p1, NegBasic(q1)), AffAdd(P, AffNeg(Q))))
            \* comparison
            /\ (CmpProj(p1, q1, TRUE) <=> P = Q) /\ (CmpProj(p1, q1, FALSE) <=> P = Q)
            /\ (z2 = 1 => (CmpMixed(p1, q1, TRUE) <=> P = Q))
            \* a sum fed back into the extended addition (T produced by the library, not by Rep)
            /\ Represents(AddExtnd(AddExtnd(p1, q1), q1), AffAdd(W, Q))
            /\ Represents(AddExtnd(DblExtnd(p1), q1), AffAdd(AffAdd(P, P), Q))

UnaryOk ==
    z2 = 1 =>          \* unary programs depend on z1 only: check them once per (curve, z1)
    \A P \in Pts :
        LET W == AffAdd(P, P)
            p1 == Rep(P, z1)
        IN  /\ Represents(DblProjc(p1), W)
            /\ Represents(DblExtnd(p1), W) /\ TValid(DblExtnd(p1))
            /\ (z1 = 1 => Represents(DblBasic(p1), W))
            /\ Represents(NegProjc(p1, TRUE), AffNeg(P)) /\ TValid(NegProjc(p1, TRUE))
            /\ Represents(NegProjc(p1, FALSE), AffNeg(P))
            /\ (z1 = 1 => Represents(NegBasic(p1), AffNeg(P)))
            /\ NormImp(p1, TRUE) = Rep(P, 1)
            /\ Represents(NormImp(p1, FALSE), P) /\ NormImp(p1, FALSE)[3] = 1
            /\ (IsInftyProj(p1) <=> P = <<0, 1>>)
            /\ (z1 = 1 => (IsInftyBasic(p1) <=> P = <<0, 1>>))
            /\ TValid(ToExtnd(<<p1[1], p1[2], p1[3], 0>>)) /\ Represents(ToExtnd(<<p1[1], p1[2], p1[3], 0>>), P)
            /\ Represents(SetInfty, <<0, 1>>) /\ TValid(SetInfty)

OnCurveOk ==
    z2 = 1 =>
    \A P \in Plane :
        LET p1 == Rep(P, z1) IN
        /\ OnCurveProg(p1, TRUE) <=> P \in Pts
        /\ OnCurveProg(p1, FALSE) <=> P \in Pts
        /\ P \in Pts /\ P # <<0, 1>> => ~OnCurveProg(<<p1[1], p1[2], p1[3], A(p1[4], 1)>>, TRUE)    \* invalid T
        /\ ~OnCurveProg(<<p1[1], p1[2], 0, p1[4]>>, TRUE)

(* the native law is lib/Edwards on BigNat values *)
LawAgrees ==
    z1 = 1 /\ z2 = 1 =>
    LET C == [p |-> BFromNat(p), a |-> BFromNat(a), d |-> BFromNat(d)]
        B(P) == EPt(BFromNat(P[1]), BFromNat(P[2]))
    IN  /\ EComplete(C)
        /\ \A P \in Plane : EOnCurve(B(P), C) <=> P \in Pts
        /\ \A P, Q \in Pts : EAdd(B(P), B(Q), C) = B(AffAdd(P, Q))
        /\ \A P \in Pts : ENeg(B(P), C) = B(AffNeg(P))

Inv1 == AddOk /\ UnaryOk /\ OnCurveOk /\ LawAgrees
=============================================================================
