---- MODULE FbLow_TTrace_1790416159 ----
EXTENDS FbLow, Sequences, TLCExt, Toolbox, Naturals, TLC

_expression ==
    LET FbLow_TEExpression == INSTANCE FbLow_TEExpression
    IN FbLow_TEExpression!expression
----

_trace ==
    LET FbLow_TETrace == INSTANCE FbLow_TETrace
    IN FbLow_TETrace!trace
----

_inv ==
    ~(
        TLCGet("level") = Len(_TETrace)
        /\
        mode = ("rdc")
        /\
        v = (1)
        /\
        go = (TRUE)
        /\
        fld = (<<9, 1, 0, 0>>)
    )
----

_init ==
    /\ mode = _TETrace[1].mode
    /\ v = _TETrace[1].v
    /\ go = _TETrace[1].go
    /\ fld = _TETrace[1].fld
----

_next ==
    /\ \E i,j \in DOMAIN _TETrace:
        /\ \/ /\ j = i + 1
              /\ i = TLCGet("level")
        /\ mode  = _TETrace[i].mode
        /\ mode' = _TETrace[j].mode
        /\ v  = _TETrace[i].v
        /\ v' = _TETrace[j].v
        /\ go  = _TETrace[i].go
        /\ go' = _TETrace[j].go
        /\ fld  = _TETrace[i].fld
        /\ fld' = _TETrace[j].fld

\* Uncomment the ASSUME below to write the states of the error trace
\* to the given file in Json format. Note that you can pass any tuple
\* to `JsonSerialize`. For example, a sub-sequence of _TETrace.
    \* ASSUME
    \*     LET J == INSTANCE Json
    \*         IN J!JsonSerialize("FbLow_TTrace_1790416159.json", _TETrace)

=============================================================================

 Note that you can extract this module `FbLow_TEExpression`
  to a dedicated file to reuse `expression` (the module in the 
  dedicated `FbLow_TEExpression.tla` file takes precedence 
  over the module `FbLow_TEExpression` below).

---- MODULE FbLow_TEExpression ----
EXTENDS FbLow, Sequences, TLCExt, Toolbox, Naturals, TLC

expression == 
    [
        \* To hide variables of the `FbLow` spec from the error trace,
        \* remove the variables below.  The trace will be written in the order
        \* of the fields of this record.
        mode |-> mode
        ,v |-> v
        ,go |-> go
        ,fld |-> fld
        
        \* Put additional constant-, state-, and action-level expressions here:
        \* ,_stateNumber |-> _TEPosition
        \* ,_modeUnchanged |-> mode = mode'
        
        \* Format the `mode` variable as Json value.
        \* ,_modeJson |->
        \*     LET J == INSTANCE Json
        \*     IN J!ToJson(mode)
        
        \* Lastly, you may build expressions over arbitrary sets of states by
        \* leveraging the _TETrace operator.  For example, this is how to
        \* count the number of times a spec variable changed up to the current
        \* state in the trace.
        \* ,_modeModCount |->
        \*     LET F[s \in DOMAIN _TETrace] ==
        \*         IF s = 1 THEN 0
        \*         ELSE IF _TETrace[s].mode # _TETrace[s-1].mode
        \*             THEN 1 + F[s-1] ELSE F[s-1]
        \*     IN F[_TEPosition - 1]
    ]

=============================================================================



Parsing and semantic processing can take forever if the trace below is long.
 In this case, it is advised to uncomment the module below to deserialize the
 trace from a generated binary file.

\*
\*---- MODULE FbLow_TETrace ----
\*EXTENDS FbLow, IOUtils, TLC
\*
\*trace == IODeserialize("FbLow_TTrace_1790416159.bin", TRUE)
\*
\*=============================================================================
\*

---- MODULE FbLow_TETrace ----
EXTENDS FbLow, TLC

trace == 
    <<
    ([mode |-> "rdc",v |-> 1,go |-> FALSE,fld |-> <<9, 1, 0, 0>>]),
    ([mode |-> "rdc",v |-> 1,go |-> TRUE,fld |-> <<9, 1, 0, 0>>])
    >>
----


=============================================================================

---- CONFIG FbLow_TTrace_1790416159 ----
CONSTANTS
    W = 4
    Modes = { "rdc" , "rdc1" }
    Level = 2
    MulDigs = { 1 }
    Bs = { 0 }
    Digs1 = { 0 }

INVARIANT
    _inv

CHECK_DEADLOCK
    \* CHECK_DEADLOCK off because of PROPERTY or INVARIANT above.
    FALSE

INIT
    _init

NEXT
    _next

CONSTANT
    _TETrace <- _trace

ALIAS
    _expression
=============================================================================
\* Generated on Sat Sep 26 09:49:21 UTC 2026