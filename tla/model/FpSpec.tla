------------------------------- MODULE FpSpec -------------------------------
(***************************************************************************)
(* The prime-field layer of RELIC (the fp module) at the level of one      *)
(* public call (C02): what each operation must return, as arithmetic in    *)
(* Z/pZ (lib/Field) on the ABSTRACT values of its operands, and in which   *)
(* representation: every output element must be the canonical raw form     *)
(* (exactly fd digits, as a number below p - lib/FpRep.FCanon), so that    *)
(* raw equality coincides with equality of residues.                       *)
(*                                                                         *)
(* An event e (harness/drv_fp.c) carries the field header p, w, fd, mont   *)
(* (FpRep), fb = bytes of the binary encoding, fbits = configured field    *)
(* size, and the RAW digits (Montgomery form when mont = 1) of             *)
(*    a, b   input elements before the call                                *)
(*    c      output element after the call                                 *)
(*    e, n   integers as raw bn objects [s, u, d];  dg one digit           *)
(*    t      double-length raw input of the reduction variants             *)
(* err = thrown error (0 none), code = sticky code after the call, unch =  *)
(* non-aliased inputs bit-identical afterwards, al = alias pattern.        *)
(* The abstract value of raw digits x is FAbs(e, x) = x * R^-1 mod p.      *)
(* Inverses and roots are judged by their defining relation.               *)
(***************************************************************************)
EXTENDS FpRep, BigInt

P(e) == FPrime(e)
A(e) == FAbs(e, e.a)
Bv(e) == FAbs(e, e.b)
Clean(e) == e.err = 0 /\ e.code = 0 /\ e.unch

(* the call returned normally and the output element raw is the canonical *)
(* representation of the residue v                                        *)
RetF(e, raw, v) == Clean(e) /\ FCanon(e, raw) /\ FAbs(e, raw) = v
(* an invalid argument (inversion of zero, malformed encoding) must be reported *)
MustThrow(e) == e.err # 0 /\ e.code = 1 /\ e.unch

In1(e) == FCanon(e, e.a)
In2(e) == FCanon(e, e.a) /\ FCanon(e, e.b)

(* a single digit as a residue *)
DigV(e) == BMod(BNorm(e.dg), P(e))
(* a raw bn object as a signed integer, and its normal form (as in BnSpec) *)
IntOf(o) == I(o.s = 1, o.d)
BnNormal(o, w) ==
    /\ Len(o.d) = o.u * w
    /\ IF BNorm(o.d) = <<>> THEN o.s = 0 /\ o.u <= 1
       ELSE \E j \in (Len(o.d) - w + 1)..Len(o.d) : o.d[j] # 0

One(e) == BMod(<<1>>, P(e))

AddOps == {"fp_add", "fp_add_basic", "fp_add_integ"}
SubOps == {"fp_sub", "fp_sub_basic", "fp_sub_integ"}
NegOps == {"fp_neg", "fp_neg_basic", "fp_neg_integ"}
DblOps == {"fp_dbl", "fp_dbl_basic", "fp_dbl_integ"}
HlvOps == {"fp_hlv", "fp_hlv_basic", "fp_hlv_integ"}
MulOps == {"fp_mul", "fp_mul_basic", "fp_mul_comba", "fp_mul_integ", "fp_mul_karat"}
SqrOps == {"fp_sqr", "fp_sqr_basic", "fp_sqr_comba", "fp_sqr_integ", "fp_sqr_karat"}
InvOps == {"fp_inv", "fp_inv_basic", "fp_inv_binar", "fp_inv_monty", "fp_inv_exgcd",
           "fp_inv_divst", "fp_inv_jmpds", "fp_inv_lower"}
ExpOps == {"fp_exp", "fp_exp_basic", "fp_exp_slide", "fp_exp_monty"}
SmbOps == {"fp_smb", "fp_smb_basic", "fp_smb_binar", "fp_smb_divst", "fp_smb_jmpds", "fp_smb_lower"}
MontyRdcOps == {"fp_rdc_monty", "fp_rdc_monty_basic", "fp_rdc_monty_comba"}
PlainRdcOps == {"fp_rdc_basic", "fp_rdc_quick"}

(* a^x for a signed exponent x: a^0 = 1, a^-k = (a^k)^-1, 0^-k is an inversion of zero *)
ExpSpec(e) ==
    LET p == P(e)
        a == A(e)
        x == IntOf(e.e)
    IN  IF x.mag = <<>> THEN RetF(e, e.c, One(e))
        ELSE IF ~x.neg THEN RetF(e, e.c, FExp(a, x.mag, p))
        ELSE IF a = <<>> THEN MustThrow(e)
        ELSE RetF(e, e.c, FInv(FExp(a, x.mag, p), p))

InvSpec(e) == IF A(e) = <<>> THEN MustThrow(e)
              ELSE /\ RetF(e, e.c, FInv(A(e), P(e)))
                   /\ FMul(FAbs(e, e.c), A(e), P(e)) = <<1>>

InvSimSpec(e) ==
    LET p == P(e) IN
    /\ Len(e.as) = e.n /\ Len(e.cs) = e.n
    /\ \A i \in 1..e.n : FCanon(e, e.as[i])
    /\ IF \E i \in 1..e.n : FAbs(e, e.as[i]) = <<>> THEN MustThrow(e)
       ELSE /\ Clean(e)
            /\ \A i \in 1..e.n : /\ FCanon(e, e.cs[i])
                                 /\ FMul(FAbs(e, e.cs[i]), FAbs(e, e.as[i]), p) = <<1>>

(* a root is returned exactly when one exists; any of the roots is accepted *)
SrtSpec(e) ==
    IF FIsSquare(A(e), P(e))
    THEN e.ret = 1 /\ Clean(e) /\ FCanon(e, e.c) /\ FIsSqrtOf(FAbs(e, e.c), A(e), P(e))
    ELSE e.ret = 0 /\ Clean(e)
CrtSpec(e) ==
    IF FIsCube(A(e), P(e))
    THEN e.ret = 1 /\ Clean(e) /\ FCanon(e, e.c) /\ FIsCbrtOf(FAbs(e, e.c), A(e), P(e))
    ELSE e.ret = 0 /\ Clean(e)

(* reductions of a double-length raw value t *)
TVal(e) == BNorm(e.t)
RdcMontySpec(e) ==      \* defined for t < p * R: the canonical c with c * R = t (mod p)
    /\ Len(e.t) = 2 * e.w * e.fd
    /\ BLt(TVal(e), BMul(P(e), FR(e)))
    /\ Clean(e) /\ FCanon(e, e.c)
    /\ BMulMod(BNorm(e.c), BMod(FR(e), P(e)), P(e)) = BMod(TVal(e), P(e))
RdcPlainSpec(e) ==
    /\ Len(e.t) = 2 * e.w * e.fd
    /\ Clean(e) /\ FCanon(e, e.c)
    /\ BNorm(e.c) = BMod(TVal(e), P(e))

ReadBinSpec(e) ==
    IF e.len # e.fb THEN MustThrow(e)
    ELSE LET v == BFromBE(e.bin) IN
         IF BLt(v, P(e)) THEN RetF(e, e.c, v) ELSE MustThrow(e)
WriteBinSpec(e) ==
    IF e.len # e.fb THEN MustThrow(e)
    ELSE Clean(e) /\ e.bin = BToBE(A(e), e.len)

(***************************************************************************)
(* Field selection: the modulus and every constant the library derives     *)
(* from it (ctx->prime, u, one, conv, srt, qnr, cnr, mod8, mod18, ad2).    *)
(***************************************************************************)
PadCanon(e, raw) == FCanon(e, raw)
IntResidue(k, p) == IF k < 0 THEN FNeg(BMod(BFromNat(0 - k), p), p) ELSE BMod(BFromNat(k), p)
SelectSpec(e) ==
    LET p   == P(e)
        R   == FR(e)
        pm1 == BSub(p, <<1>>)
    IN  /\ e.err = 0 /\ e.code = 0
        /\ Len(e.p) = e.w * e.fd
        /\ \E j \in (Len(e.p) - e.w + 1)..Len(e.p) : e.p[j] # 0      \* exactly fd digits
        /\ BBits(p) <= e.fbits
        /\ BBit(p, 0) = 1 /\ BIsPrime(p)
        \* u = -p^-1 mod 2^(digit bits)
        /\ BLow(BAdd(BMul(BNorm(e.u), p), <<1>>), 8 * e.w) = <<>>
        /\ PadCanon(e, e.one) /\ BNorm(e.one) = BMod(R, p)
        /\ PadCanon(e, e.conv) /\ BNorm(e.conv) = BMulMod(R, R, p)
        /\ BFromNat(e.mod8) = BMod(p, <<8>>)
        /\ BFromNat(e.mod18) = BMod(p, <<18>>)
        /\ e.ad2 >= 1 /\ BLow(pm1, e.ad2) = <<>> /\ BBit(pm1, e.ad2) = 1
        /\ e.qnr < 0 /\ FLegendre(IntResidue(e.qnr, p), p) = 0 - 1
        /\ IF BMod(p, <<3>>) = <<1>>
           THEN e.cnr # 0 /\ ~FIsCube(IntResidue(e.cnr, p), p)
           ELSE e.cnr = 0
        \* srt generates the 2-Sylow subgroup (used by Tonelli-Shanks when p = 1 mod 4)
        /\ PadCanon(e, e.srt)
        /\ (e.ad2 >= 2 => FExp(FAbs(e, e.srt), BShl(<<1>>, e.ad2 - 1), p) = pm1)

FpAccept(e) ==
    LET p == P(e) IN
    CASE e.op \in AddOps -> In2(e) /\ RetF(e, e.c, FAdd(A(e), Bv(e), p))
      [] e.op \in SubOps -> In2(e) /\ RetF(e, e.c, FSub(A(e), Bv(e), p))
      [] e.op \in MulOps -> In2(e) /\ RetF(e, e.c, FMul(A(e), Bv(e), p))
      [] e.op \in NegOps -> In1(e) /\ RetF(e, e.c, FNeg(A(e), p))
      [] e.op \in DblOps -> In1(e) /\ RetF(e, e.c, FDbl(A(e), p))
      [] e.op \in HlvOps -> In1(e) /\ RetF(e, e.c, FHlv(A(e), p))
                                   /\ FDbl(FAbs(e, e.c), p) = A(e)
      [] e.op = "fp_trs" -> In1(e) /\ RetF(e, e.c, FAbs(e, e.c)) /\ FMul(FAbs(e, e.c), <<3>>, p) = A(e)      \* 3 c = a
      [] e.op \in SqrOps -> In1(e) /\ RetF(e, e.c, FSqr(A(e), p))
      [] e.op \in InvOps -> In1(e) /\ InvSpec(e)
      [] e.op = "fp_inv_sim" -> InvSimSpec(e)
      [] e.op \in ExpOps -> In1(e) /\ ExpSpec(e)
      [] e.op = "fp_exp_dig" -> In1(e) /\ RetF(e, e.c, FExp(A(e), BNorm(e.dg), p))
      [] e.op = "fp_add_dig" -> In1(e) /\ RetF(e, e.c, FAdd(A(e), DigV(e), p))
      [] e.op = "fp_sub_dig" -> In1(e) /\ RetF(e, e.c, FSub(A(e), DigV(e), p))
      [] e.op = "fp_mul_dig" -> In1(e) /\ RetF(e, e.c, FMul(A(e), DigV(e), p))
      [] e.op = "fp_srt" -> In1(e) /\ SrtSpec(e)
      [] e.op = "fp_crt" -> In1(e) /\ CrtSpec(e)
      [] e.op = "fp_is_sqr" -> In1(e) /\ Clean(e) /\ e.ret = (IF FIsSquare(A(e), p) THEN 1 ELSE 0)
      [] e.op = "fp_is_cub" -> In1(e) /\ Clean(e) /\ e.ret = (IF FIsCube(A(e), p) THEN 1 ELSE 0)
      [] e.op \in SmbOps -> In1(e) /\ Clean(e) /\ e.ret = FLegendre(A(e), p)
      [] e.op = "fp_is_zero" -> In1(e) /\ Clean(e) /\ e.ret = (IF A(e) = <<>> THEN 1 ELSE 0)
      [] e.op = "fp_is_even" -> In1(e) /\ Clean(e) /\ e.ret = 1 - BBit(A(e), 0)
      \* RLC_EQ = 0, RLC_NE = 2: equality of elements is equality of residues
      [] e.op = "fp_cmp" -> In2(e) /\ Clean(e) /\ e.ret = (IF A(e) = Bv(e) THEN 0 ELSE 2)
      [] e.op = "fp_cmp_dig" -> In1(e) /\ Clean(e) /\ e.ret = (IF A(e) = DigV(e) THEN 0 ELSE 2)
      [] e.op \in {"fp_set_dig", "fp_prime_conv_dig"} -> RetF(e, e.c, DigV(e))
      [] e.op = "fp_prime_conv" ->
            LET n == IntOf(e.n) IN RetF(e, e.c, FFromInt(n.neg, n.mag, p))
      [] e.op = "fp_prime_back" ->
            In1(e) /\ Clean(e) /\ BnNormal(e.n, e.w) /\ e.n.s = 0 /\ BNorm(e.n.d) = A(e)
      [] e.op \in MontyRdcOps -> RdcMontySpec(e)
      [] e.op = "fp_rdc" -> IF e.mont = 1 THEN RdcMontySpec(e) ELSE RdcPlainSpec(e)
      [] e.op \in PlainRdcOps -> RdcPlainSpec(e)
      [] e.op = "fp_read_bin" -> ReadBinSpec(e)
      [] e.op = "fp_write_bin" -> In1(e) /\ WriteBinSpec(e)
      [] e.op = "fp_rand" -> e.err = 0 /\ e.code = 0 /\ FCanon(e, e.c)
      [] e.op = "fp_zero" -> e.err = 0 /\ e.code = 0 /\ FCanon(e, e.c) /\ BNorm(e.c) = <<>>
      [] e.op = "fp_copy" -> In1(e) /\ Clean(e) /\ e.c = e.a
      [] e.op = "fp_select" -> SelectSpec(e)
      [] OTHER -> FALSE

(***************************************************************************)
(* Known findings (DESIGN.md 2.8): each key is enabled only for its op +   *)
(* input class + the exact outcome described, and only when listed in      *)
(* known_findings.json.                                                    *)
(***************************************************************************)
FpKnownKey(e) ==
    CASE \* the sliding-window exponentiation (the default fp_exp) has a recoding buffer
         \* of fbits + 1 entries: longer exponents are refused with an error, not computed
         e.op \in {"fp_exp", "fp_exp_slide"} /\ BBits(BNorm(e.e.d)) > e.fbits + 1
                /\ e.err # 0 /\ e.code = 1 /\ e.unch
            -> "C02-exp-slide-exponent-capacity"
         \* fp_crt(c, a) with c == a when p = 1 (mod 9): the general branch writes its running
         \* value into c before the last reads of a; a root is announced but c^3 # a
         \* fp_trs (c = a / 3): the correction constant (p - 1) div 3 is -1/3 only for p = 1 (mod 3), and the digit-wise
         \* division by three assumes 64-bit digits: the call completes with a reduced value c for which 3c # a
      [] e.op = "fp_trs" /\ e.err = 0 /\ e.code = 0 /\ FCanon(e, e.a)
                /\ ~(FCanon(e, e.c) /\ FMul(FAbs(e, e.c), <<3>>, P(e)) = A(e))
            -> "C02-trs-wrong-quotient"
      [] e.op = "fp_crt" /\ e.al = 1 /\ BMod(P(e), <<9>>) = <<1>>
                /\ A(e) # <<>> /\ FIsCube(A(e), P(e))
                /\ e.ret = 1 /\ e.err = 0 /\ e.code = 0 /\ FCanon(e, e.c)
                /\ ~FIsCbrtOf(FAbs(e, e.c), A(e), P(e))
            -> "C02-crt-alias-p1mod9"
         \* fp_smb_binar (64-bit digits) returns the opposite sign for some inputs next to p, p/4, ...
         \* on moduli whose top digit is all ones (2^255 - 19, secp256k1); all other variants agree
         \* with Euler's criterion there
      [] e.op = "fp_smb_binar" /\ e.w = 8 /\ A(e) # <<>> /\ e.err = 0 /\ e.code = 0 /\ e.unch
                /\ e.ret = 0 - FLegendre(A(e), P(e))
            -> "C02-smb-binar-wrong-sign"
      [] OTHER -> ""
=============================================================================
