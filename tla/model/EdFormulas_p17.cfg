CONSTANTS
    Primes = {17, 19}
    Zs = {1, 2, 3, 4, 5, 6, 7, 8, 9, 10, 11, 12, 13, 14, 15, 16, 17, 18}
SPECIFICATION Spec
INVARIANT Inv1
CHECK_DEADLOCK FALSE
