CONSTANTS
    Primes = {17}
    Zs = {1, 2, 3, 16}
SPECIFICATION Spec
INVARIANT Inv1
CHECK_DEADLOCK FALSE
