------------------------------- MODULE TauSpec -------------------------------
(***************************************************************************)
(* The tau-adic scalar recodings of src/bn/relic_bn_rec.c (property C09,   *)
(* extension): bn_rec_tnaf_get, bn_rec_tnaf_mod, bn_rec_tnaf, bn_rec_rtnaf *)
(* and the signed aligned column recoding bn_rec_sac, at the level of one  *)
(* public call.  Events come from harness/drv_tau.c.                       *)
(*                                                                         *)
(* Z[tau] is the ring of integers of the Frobenius endomorphism of a       *)
(* Koblitz curve E_a : y^2 + xy = x^3 + a x^2 + 1 over GF(2^m):            *)
(*     tau^2 = mu tau - 2,   mu = (-1)^(1-a)   (the parameter u of the     *)
(* library: u = 1 for a = 1, u = -1 for a = 0).  An element a + b tau is   *)
(* the pair <<a, b>> of BigInt values.  Everything is defined here:        *)
(*   - norm, conjugate, product, powers of tau, delta = (tau^m-1)/(tau-1), *)
(*   - the group order by the Lucas sequence, #E_a(GF(2^m)) = 2^m + 1 - V_m,*)
(*     and n = #E_a / h = N(delta), h = N(tau - 1) = 3 - mu,               *)
(*   - congruence modulo delta by exact division in Z[tau]                 *)
(*       x = y (mod delta)  iff  N(delta) divides (x - y) conj(delta),     *)
(*     and, where gcd(d1, n) = 1 for delta = d0 + d1 tau, ALSO through the *)
(*     ring homomorphism Z[tau] -> Z/n, tau |-> lambda = -d0/d1 (the       *)
(*     eigenvalue of Frobenius on the subgroup of order n),                *)
(*   - the representatives alpha_u = u mods tau^w: THE element of least    *)
(*     norm congruent to u modulo tau^w (congruence through Z[tau] ->      *)
(*     Z/2^w, tau |-> t_w, t_w the even root of x^2 - mu x + 2 mod 2^w),   *)
(*   - the partial reduction: k = B + tau^m R with B = sum_{i<m} c_i tau^i,*)
(*     c_i in {0,1} (the canonical number system digits of k), partmod(k)  *)
(*     = B + R = k - (tau^m - 1) R.                                        *)
(***************************************************************************)
EXTENDS BntSpec

(* ---------------------------------------------------------------- Z[tau] *)
IMu(mu, a) == IF mu = 1 THEN a ELSE INeg(a)
TZero == <<IZero, IZero>>
TOne  == <<IOne, IZero>>
TInt(a) == <<a, IZero>>
TAdd(x, y) == <<IAdd(x[1], y[1]), IAdd(x[2], y[2])>>
TSub(x, y) == <<ISub(x[1], y[1]), ISub(x[2], y[2])>>
TEq(x, y)  == IEq(x[1], y[1]) /\ IEq(x[2], y[2])
(* (a + b tau) tau = -2b + (a + mu b) tau *)
TMulTau(mu, x) == <<INeg(IShl(x[2], 1)), IAdd(x[1], IMu(mu, x[2]))>>
RECURSIVE TMulTauN(_, _, _)
TMulTauN(mu, x, s) == IF s = 0 THEN x ELSE TMulTauN(mu, TMulTau(mu, x), s - 1)
TMul(mu, x, y) ==
    LET bd == IMul(x[2], y[2]) IN
    <<ISub(IMul(x[1], y[1]), IShl(bd, 1)),
      IAdd(IAdd(IMul(x[1], y[2]), IMul(x[2], y[1])), IMu(mu, bd))>>
(* conj(tau) = mu - tau *)
TConj(mu, x) == <<IAdd(x[1], IMu(mu, x[2])), INeg(x[2])>>
TNorm(mu, x) == IAdd(IAdd(ISqr(x[1]), IMu(mu, IMul(x[1], x[2]))), IShl(ISqr(x[2]), 1))

(* <<tau^m, 1 + tau + ... + tau^(m-1)>> *)
RECURSIVE TauPowSumR(_, _, _, _)
TauPowSumR(mu, i, p, s) == IF i = 0 THEN <<p, s>>
                           ELSE TauPowSumR(mu, i - 1, TMulTau(mu, p), TAdd(s, p))
TauPowSum(mu, m) == TauPowSumR(mu, m, TOne, TZero)

(* Lucas sequence V_0 = 2, V_1 = mu, V_(i+1) = mu V_i - 2 V_(i-1) *)
RECURSIVE LucasVR(_, _, _, _)
LucasVR(mu, i, v0, v1) == IF i = 0 THEN v0
                          ELSE LucasVR(mu, i - 1, v1, ISub(IMu(mu, v1), IShl(v0, 1)))
CurveOrder(mu, m) == ISub(IAdd(IShl(IOne, m), IOne), LucasVR(mu, m, IFromNat(2), IFromInt(mu)))
Cofactor(mu) == IF mu = 1 THEN 2 ELSE 4

(* x = y modulo d (norm nd > 0), by exact division *)
TCong(mu, x, y, d, nd) ==
    LET z == TMul(mu, TSub(x, y), TConj(mu, d)) IN
    IModPos(z[1], nd.mag) = <<>> /\ IModPos(z[2], nd.mag) = <<>>

(* the eigenvalue: d0 + d1 lambda = 0 (mod n); <<>> stands for "not available" (d1 not a unit) *)
Lambda(d, n) ==
    LET d1 == IModPos(d[2], n) IN
    IF BLe(n, <<1>>) \/ BGcd(d1, n) # <<1>> THEN <<>>
    ELSE BMulMod(BSubMod(<<>>, IModPos(d[1], n), n), BModInv(d1, n), n)
(* image of a + b tau in Z/n *)
THom(x, lam, n) == BAddMod(IModPos(x[1], n), BMulMod(IModPos(x[2], n), lam, n), n)
LambdaIsRoot(mu, lam, n) ==    \* lambda^2 - mu lambda + 2 = 0 (mod n)
    IModPos(IAdd(ISub(Nat2I(BMul(lam, lam)), IMu(mu, Nat2I(lam))), IFromNat(2)), n) = <<>>

(* ---------------------------------------------------------------- alpha_u = u mods tau^w *)
TW(mu, w) == CHOOSE t \in 0..(Pow2(w) - 1) : t % 2 = 0 /\ (t * t - mu * t + 2) % Pow2(w) = 0
ModS(x, M) == LET r == x % M IN IF r >= M \div 2 THEN r - M ELSE r
NormN(mu, c) == c[1] * c[1] + mu * c[1] * c[2] + 2 * c[2] * c[2]
(* candidates b + g tau with b + g t_w = u (mod 2^w): the least norm has |g| < 2^(w/2) and |b| < 2^(w-1) *)
(* (7/4) g^2 <= N(b + g tau) and the least norm is at most (4/7) 2^w [Solinas]: |g| <= (4/7) 2^(w/2); the model   *)
(* TauRecode confirms for every mu, w, u that no candidate of a much larger box has a smaller or equal norm       *)
AlphaG(w) == <<1, 2, 3, 4, 5, 7, 10>>[w - 1]
AlphaCand(mu, w, tw, u, g) == <<ModS(u - g * tw, Pow2(w)), g>>
RECURSIVE AlphaMinR(_, _, _, _, _, _)
AlphaMinR(mu, w, tw, u, g, best) ==
    IF g > AlphaG(w) THEN best
    ELSE LET c == AlphaCand(mu, w, tw, u, g) IN
         AlphaMinR(mu, w, tw, u, g + 1, IF NormN(mu, c) < NormN(mu, best) THEN c ELSE best)
AlphaOf(mu, w, tw, u) == AlphaMinR(mu, w, tw, u, 1 - AlphaG(w), AlphaCand(mu, w, tw, u, 0 - AlphaG(w)))
(* the least norm is attained once only (checked by the model TauRecode for every mu, w, u) *)
AlphaUnique(mu, w, tw, u) == LET a == AlphaOf(mu, w, tw, u) IN
    \A g \in (0 - AlphaG(w))..AlphaG(w) :
        LET d == AlphaCand(mu, w, tw, u, g) IN NormN(mu, d) = NormN(mu, a) => d = a
(* the element a digit stands for: 0, or sign(d) alpha_|d| (width 2: alpha_1 = 1) *)
AlphaCtx(mu, w) == [mu |-> mu, w |-> w, tw |-> IF w = 2 THEN 2 ELSE TW(mu, w)]
DigitElt(tab, d) ==
    IF d = 0 THEN TZero
    ELSE LET a == IF tab.w = 2 THEN <<1, 0>> ELSE AlphaOf(tab.mu, tab.w, tab.tw, AbsI(d)) IN
         IF d > 0 THEN <<IFromInt(a[1]), IFromInt(a[2])>> ELSE <<IFromInt(0 - a[1]), IFromInt(0 - a[2])>>
(* sum_i alpha(ds[i]) tau^((i-1) s), Horner from the top *)
RECURSIVE TauEvalR(_, _, _, _, _, _)
TauEvalR(mu, tab, ds, s, i, acc) ==
    IF i = 0 THEN acc
    ELSE LET sh == TMulTauN(mu, acc, s) IN
         TauEvalR(mu, tab, ds, s, i - 1, IF ds[i] = 0 THEN sh ELSE TAdd(sh, DigitElt(tab, ds[i])))
TauEval(mu, tab, ds, s) == TauEvalR(mu, tab, ds, s, Len(ds), TZero)
(* ---------------------------------------------------------------- partial reduction *)
IOdd(a) == BBit(a.mag, 0) = 1
(* quotient of x by tau^i for the digit set {0, 1}: x = c + tau q, c = x mod tau in {0, 1} *)
RECURSIVE TauQuot(_, _, _)
TauQuot(mu, x, i) ==
    IF i = 0 THEN x
    ELSE LET a == IF IOdd(x[1]) THEN ISub(x[1], IOne) ELSE x[1]
             h == IShrMag(a, 1)                         \* a is even: exact
         IN  TauQuot(mu, <<IAdd(x[2], IMu(mu, h)), INeg(h)>>, i - 1)
PartMod(mu, k, m, taum) == TSub(TInt(k), TMul(mu, TSub(taum, TOne), TauQuot(mu, TInt(k), m)))

(* ---------------------------------------------------------------- the events *)
MuOk(e) == e.u \in {0 - 1, 1}
OddDigit(d, w) == OddInt(d) /\ AbsI(d) < Pow2(w - 1)

TnafGetAccept(e) ==
    LET mu == e.u  w == e.rw IN
    /\ e.err = 0 /\ e.code = 0 /\ ~e.ovf
    /\ IF w = 2 THEN e.t = 2 /\ e.beta = <<1>> /\ e.gama = <<0>>
       ELSE /\ e.t = TW(mu, w)
            /\ Len(e.beta) = Pow2(w - 2) /\ Len(e.gama) = Pow2(w - 2)
            /\ \A j \in 1..Pow2(w - 2) : <<e.beta[j], e.gama[j]>> = AlphaOf(mu, w, e.t, 2 * j - 1)

(* what both congruence checks need: delta, its norm, tau^m, lambda *)
Ctx(mu, m) == LET ps == TauPowSum(mu, m)
                  nd == TNorm(mu, ps[2])
              IN  [taum |-> ps[1], delta |-> ps[2], n |-> nd, lam |-> Lambda(ps[2], nd.mag)]
(* the norm of delta is the order of the main subgroup: N(delta) h = 2^m + 1 - V_m *)
CtxOk(mu, m, cx) == /\ ~cx.n.neg /\ cx.n.mag # <<>>
                    /\ IEq(IMul(cx.n, IFromNat(Cofactor(mu))), CurveOrder(mu, m))
                    /\ (cx.lam # <<>> => LambdaIsRoot(mu, cx.lam, cx.n.mag)
                                         /\ THom(cx.delta, cx.lam, cx.n.mag) = <<>>)
(* x represents the integer k modulo delta *)
Represents(mu, cx, x, k) ==
    /\ TCong(mu, x, TInt(k), cx.delta, cx.n)
    /\ (cx.lam # <<>> => THom(x, cx.lam, cx.n.mag) = IModPos(k, cx.n.mag))

TnafModAccept(e) ==
    LET mu == e.u  m == e.m  k == Val(e.k)
        r == <<Val(e.c), Val(e.d)>>
    IN \E cx \in {Ctx(mu, m)} :
       /\ CtxOk(mu, m, cx)
       /\ Done(e) /\ Normal(e.c, e.w) /\ Normal(e.d, e.w)
       /\ IF k.neg THEN (Represents(mu, cx, r, k) \/ Represents(mu, cx, r, IAbs(k)))   \* sign not in the contract
          ELSE /\ Represents(mu, cx, r, k)
               /\ TEq(r, PartMod(mu, k, m, cx.taum))

(* length the callers provide for: int8_t tnaf[RLC_FB_BITS + 8], scalars not longer than the field *)
TnafLenBound(kb, m) == IF kb <= m THEN m + 8 ELSE 2 * kb + 8
MaxI(a, b) == IF a >= b THEN a ELSE b

TnafAccept(e) ==
    LET mu == e.u  m == e.m  w == e.rw  k == Nat2I(KMag(e))  kb == BBits(KMag(e)) IN
    IF RecThrown(e, MaxI(kb + 1, TnafLenBound(kb, m) + 1)) THEN TRUE
    ELSE \E cx \in {Ctx(mu, m)} : \E tab \in {AlphaCtx(mu, w)} : \E v \in {TauEval(mu, tab, e.ds, 1)} :
       /\ CtxOk(mu, m, cx)
       /\ RecDone(e)
       /\ \A i \in 1..Len(e.ds) : e.ds[i] = 0 \/ OddDigit(e.ds[i], w)
       /\ NonAdjacent(e.ds, w)
       /\ (e.len > 0 => e.ds[e.len] # 0)
       /\ Represents(mu, cx, v, k)
       /\ TEq(v, PartMod(mu, k, m, cx.taum))                 \* exactly the partially reduced scalar
       /\ (kb <= m => e.len <= m + 8)

(* regular form: defined for scalars below the group order whose partial reduction has two odd coordinates *)
RtnafLen(m, w) == Ceil(m + 2, w - 1) + 1
RtnafAccept(e) ==
    LET mu == e.u  m == e.m  w == e.rw  k == Nat2I(KMag(e))  kb == BBits(KMag(e))  L == RtnafLen(m, w) IN
    IF RecThrown(e, MaxI(kb + 1, L)) THEN TRUE
    ELSE \E cx \in {Ctx(mu, m)} : \E r \in {PartMod(mu, k, m, cx.taum)} :
       /\ CtxOk(mu, m, cx)
       /\ IF ~(IOdd(r[1]) /\ IOdd(r[2]) /\ BLt(k.mag, cx.n.mag))
          THEN e.err = 0 /\ ~e.ovf /\ e.unch                                   \* outside the domain
          ELSE \E tab \in {AlphaCtx(mu, w)} : \E v \in {TauEval(mu, tab, e.ds, w - 1)} :
               /\ RecDone(e)
               /\ e.len = L
               /\ \A i \in 1..Len(e.ds) : OddDigit(e.ds[i], w)
               /\ Represents(mu, cx, v, k)
               /\ TEq(v, r)

(* signed aligned columns: row 1 holds the signs s_i = 1 - 2 b_1i of the columns (the top one positive),   *)
(* row j > 1 the magnitudes b_ji in {0, 1}:  k_1 = sum_i s_i 2^i,  k_j = sum_i b_ji s_i 2^i;  the length is *)
(* max(ceil(n / (c m)) + 1, bits(u) + 1 [, bits(k_i) + 1 when cof]); defined for k_1 odd, every k_i >= 0,   *)
(* k_1 not longer than the recoding and the other sub-scalars shorter than it                               *)
RECURSIVE MaxBitsR(_, _)
MaxBitsR(ks, i) == IF i > Len(ks) THEN 0 ELSE MaxI(BBits(MagOf(ks[i])), MaxBitsR(ks, i + 1))
SacLen(e) == LET l0 == Ceil(e.n, e.c * e.ms) + 1
                 l1 == MaxI(l0, BBits(MagOf(e.x)) + 1)
             IN  IF e.cof = 1 THEN MaxI(l1, MaxBitsR(e.ks, 1) + 1) ELSE l1
SacSign(row, i) == 1 - 2 * row[i]
SacDomain(e, l) ==
    /\ e.ms >= 1 /\ e.c >= 1 /\ Len(e.ks) = e.ms
    /\ \A j \in 1..e.ms : e.ks[j].s = 0
    /\ BBit(MagOf(e.ks[1]), 0) = 1 /\ BBits(MagOf(e.ks[1])) <= l
    /\ \A j \in 2..e.ms : BBits(MagOf(e.ks[j])) <= l - 1
SacAccept(e) ==
    LET l == SacLen(e) IN
    IF ~SacDomain(e, l) THEN TRUE                                              \* not driven
    ELSE \/ (e.err # 0 /\ e.code = 1 /\ e.unch /\ ~e.ovf /\ e.rcap <= l /\ e.len = 0)
         \/ /\ e.err = 0 /\ e.code = 0 /\ e.unch /\ ~e.ovf
            /\ e.len = l /\ e.len <= e.rcap /\ Len(e.rows) = e.ms
            /\ \A j \in 1..e.ms : Len(e.rows[j]) = l /\ \A i \in 1..l : e.rows[j][i] \in {0, 1}
            /\ e.rows[1][l] = 0
            /\ IEq(DigSum([i \in 1..l |-> SacSign(e.rows[1], i)], 1), Val(e.ks[1]))
            /\ \A j \in 2..e.ms :
                  IEq(DigSum([i \in 1..l |-> e.rows[j][i] * SacSign(e.rows[1], i)], 1), Val(e.ks[j]))

TauAccept(e) ==
    CASE e.op = "bn_rec_tnaf_get" -> MuOk(e) /\ TnafGetAccept(e)
      [] e.op = "bn_rec_tnaf_mod" -> MuOk(e) /\ TnafModAccept(e)
      [] e.op = "bn_rec_tnaf"     -> MuOk(e) /\ TnafAccept(e)
      [] e.op = "bn_rec_rtnaf"    -> MuOk(e) /\ RtnafAccept(e)
      [] e.op = "bn_rec_sac"      -> SacAccept(e)
      [] OTHER -> FALSE

(***************************************************************************)
(* Known findings: op + input class + the exact wrong outcome              *)
(***************************************************************************)
TauKnownKey(e) ==
    CASE e.op \in {"bn_rec_tnaf", "bn_rec_rtnaf"} /\ e.err = 0 /\ e.code = 0 /\ e.ovf
              /\ e.rcap >= BBits(KMag(e)) + 1 /\ e.len > e.rcap
            -> "C09-rectnaf-capacity-check-by-bit-length"
      [] e.op = "bn_rec_sac" /\ e.err = 0 /\ e.code = 0 /\ e.ovf
              /\ e.rcap > Ceil(e.n, e.c * e.ms) + 1 /\ e.len > e.rcap /\ e.len = SacLen(e)
            -> "C09-recsac-capacity-check-before-length-extension"
      [] OTHER -> ""
=============================================================================
