------------------------------ MODULE TauRecode ------------------------------
(***************************************************************************)
(* The tau-adic recodings of src/bn/relic_bn_rec.c transcribed loop        *)
(* iteration by loop iteration on native integers (C09, extension):        *)
(*   bn_rec_tnaf_mod - the partial reduction: m steps "strip the low bit,  *)
(*                     divide by tau", tracking (a0, a1) = tau^i and the   *)
(*                     stripped part (b0, b1), then r + b;                 *)
(*   bn_rec_tnaf     - width-w tau-NAF: zero digits while r0 is even, then *)
(*                     u = r0 + r1 t_w mods 2^w from the low digits and    *)
(*                     the signs (dig_t arithmetic), int8_t casts, the     *)
(*                     table lookup beta[u >> 1], gama[u >> 1], bn_hlv;    *)
(*   bn_rec_rtnaf    - the regular form: ceil((m + 2)/(w - 1)) digits      *)
(*                     u - 2^(w-1), w - 1 divisions by tau after each, and *)
(*                     the final digit looked up from the remainder.       *)
(* Z[tau]: tau^2 = mu tau - 2, an element a + b tau is the pair <<a, b>>.  *)
(* Checked for every scalar below 2^KBits, every degree in Ms, both curves *)
(* (mu = 1, -1) and every width 2..WMax: the digits, read with the         *)
(* representatives alpha_u DEFINED as the least-norm element congruent to  *)
(* u modulo tau^w, evaluate exactly to the partially reduced scalar, which *)
(* is congruent to k modulo delta = (tau^m - 1)/(tau - 1) - by exact       *)
(* division in Z[tau] and under every ring homomorphism tau |-> lambda     *)
(* into Z/n, n = N(delta) = #E_a(GF(2^m)) / h by the Lucas sequence -,     *)
(* are odd and below 2^(w-1), non-adjacent (regular: all non-zero, fixed   *)
(* length), and the length stays within m + 8 for scalars below 2^m.       *)
(* The tables of the code (t_w for w = 2..8, beta / gama for w <= 5) are   *)
(* compared with the definition in ASSUMEs.                                *)
(***************************************************************************)
EXTENDS Integers, Sequences, FiniteSets, TLC

CONSTANTS Ms,       \* field degrees
          KBits,    \* scalars 0 .. 2^KBits - 1
          WMax,     \* widths 2 .. WMax  (at most 5: the transcribed part of the table)
          DigBits   \* bits per digit of the modelled build

RECURSIVE Pow2(_)
Pow2(n) == IF n = 0 THEN 1 ELSE 2 * Pow2(n - 1)
Ceil(a, b) == (a + b - 1) \div b
Abs(x) == IF x < 0 THEN 0 - x ELSE x
ToInt8(x) == ((x + 128) % 256) - 128
DigMod == Pow2(DigBits)
Hlv(x) == IF x < 0 THEN 0 - ((0 - x) \div 2) ELSE x \div 2      \* bn_hlv: the magnitude is halved

(* ---------------------------------------------------------------- Z[tau] *)
TAdd(x, y) == <<x[1] + y[1], x[2] + y[2]>>
TSub(x, y) == <<x[1] - y[1], x[2] - y[2]>>
TMul(mu, x, y) == <<x[1] * y[1] - 2 * x[2] * y[2], x[1] * y[2] + x[2] * y[1] + mu * x[2] * y[2]>>
TMulTau(mu, x) == <<0 - 2 * x[2], x[1] + mu * x[2]>>
TConj(mu, x) == <<x[1] + mu * x[2], 0 - x[2]>>
TNorm(mu, x) == x[1] * x[1] + mu * x[1] * x[2] + 2 * x[2] * x[2]
RECURSIVE TauPow(_, _)
TauPow(mu, i) == IF i = 0 THEN <<1, 0>> ELSE TMulTau(mu, TauPow(mu, i - 1))
RECURSIVE Delta(_, _)
Delta(mu, i) == IF i = 0 THEN <<0, 0>> ELSE TAdd(Delta(mu, i - 1), TauPow(mu, i - 1))
RECURSIVE LucasV(_, _)
LucasV(mu, i) == IF i = 0 THEN 2 ELSE IF i = 1 THEN mu ELSE mu * LucasV(mu, i - 1) - 2 * LucasV(mu, i - 2)
CurveOrder(mu, mm) == Pow2(mm) + 1 - LucasV(mu, mm)
Cofactor(mu) == IF mu = 1 THEN 2 ELSE 4
SubOrder(mu, mm) == CurveOrder(mu, mm) \div Cofactor(mu)
Cong(mu, x, y, d) == LET z == TMul(mu, TSub(x, y), TConj(mu, d))  n == TNorm(mu, d) IN
                     z[1] % n = 0 /\ z[2] % n = 0
(* the ring homomorphisms Z[tau] -> Z/n that kill delta *)
Lambdas(mu, mm) == LET n == SubOrder(mu, mm)  d == Delta(mu, mm) IN
    {lam \in 0..(n - 1) : (lam * lam - mu * lam + 2) % n = 0 /\ (d[1] + d[2] * lam) % n = 0}

(* ---------------------------------------------------------------- alpha_u by definition *)
TWDef(mu, w) == CHOOSE t \in 0..(Pow2(w) - 1) : t % 2 = 0 /\ (t * t - mu * t + 2) % Pow2(w) = 0
ModS(x, M) == LET r == x % M IN IF r >= M \div 2 THEN r - M ELSE r
AlphaCand(mu, w, tw, u, g) == <<ModS(u - g * tw, Pow2(w)), g>>
AlphaG(w) == <<1, 2, 3, 4, 5, 7, 10>>[w - 1]                     \* the search range used by TauSpec
AlphaBox(mu, w, tw, u, G) == {AlphaCand(mu, w, tw, u, g) : g \in (0 - G)..G}
AlphaOf(mu, w, u) ==
    IF w = 2 THEN <<1, 0>>
    ELSE LET C == AlphaBox(mu, w, TWDef(mu, w), u, AlphaG(w)) IN
         CHOOSE c \in C : \A d \in C : TNorm(mu, c) <= TNorm(mu, d)
(* unique, and nothing in a box four times as wide (and with b shifted by 2^w either way) is as short *)
AlphaWellDefined(mu, w, u) ==
    LET a == AlphaOf(mu, w, u)  tw == TWDef(mu, w) IN
    /\ (a[1] + a[2] * tw - u) % Pow2(w) = 0
    /\ 7 * TNorm(mu, a) <= 4 * Pow2(w)
    /\ \A d \in AlphaBox(mu, w, tw, u, 4 * AlphaG(w)) :
          /\ (d # a => TNorm(mu, d) > TNorm(mu, a))
          /\ TNorm(mu, <<d[1] + Pow2(w), d[2]>>) > TNorm(mu, a)
          /\ TNorm(mu, <<d[1] - Pow2(w), d[2]>>) > TNorm(mu, a)
ASSUME \A mu \in {0 - 1, 1} : \A w \in 3..8 :
          /\ Cardinality({t \in 0..(Pow2(w) - 1) : t % 2 = 0 /\ (t * t - mu * t + 2) % Pow2(w) = 0}) = 1
          /\ \A j \in 1..Pow2(w - 2) : AlphaWellDefined(mu, w, 2 * j - 1)

(* ---------------------------------------------------------------- the tables as coded (bn_rec_tnaf_get) *)
TWCoded(mu, w) == IF mu = 0 - 1 THEN <<2, 2, 10, 26, 26, 90, 90>>[w - 1]
                  ELSE <<2, 6, 6, 6, 38, 38, 166>>[w - 1]
BetaCoded(mu, w) == CASE w = 2 -> <<1>>
                      [] w = 3 -> <<1, 1>>
                      [] w = 4 -> <<1, 0 - 3, 0 - 1, 1>>
                      [] w = 5 -> <<1, 0 - 3, 0 - 1, 1, 0 - 3, 0 - 1, 1, 1>>
GamaCoded(mu, w) == CASE w = 2 -> <<0>>
                      [] w = 3 -> <<0, 0 - mu>>
                      [] w = 4 -> <<0, mu, mu, mu>>
                      [] w = 5 -> <<0, mu, mu, mu, 2 * mu, 2 * mu, 2 * mu, 0 - 3 * mu>>
ASSUME \A mu \in {0 - 1, 1} :
          /\ \A w \in 3..8 : TWCoded(mu, w) = TWDef(mu, w)
          /\ \A w \in 2..5 : \A j \in 1..Pow2(w - 2) :
                <<BetaCoded(mu, w)[j], GamaCoded(mu, w)[j]>> = AlphaOf(mu, w, 2 * j - 1)
ASSUME WMax \in 2..5

(* the group order: N(delta) h = 2^m + 1 - V_m *)
ASSUME \A mu \in {0 - 1, 1} : \A mm \in Ms :
          /\ TNorm(mu, Delta(mu, mm)) * Cofactor(mu) = CurveOrder(mu, mm)
          /\ TMul(mu, Delta(mu, mm), <<0 - 1, 1>>) = TSub(TauPow(mu, mm), <<1, 0>>)

(* ---------------------------------------------------------------- evaluation of a digit string *)
(* a digit d stands for sign(d) alpha_|d|; for the widths of this model the table as coded IS the definition *)
(* (ASSUME above), so the invariants read it from the table                                                  *)
DigitElt(mu, w, d) == IF d = 0 THEN <<0, 0>>
                      ELSE LET j == (Abs(d) + 1) \div 2
                               a == IF j <= Pow2(w - 2) /\ d % 2 = 1 THEN <<BetaCoded(mu, w)[j], GamaCoded(mu, w)[j]>>
                                    ELSE <<0, 0>>             \* not a digit: rejected by OddDigit below
                           IN  IF d > 0 THEN a ELSE <<0 - a[1], 0 - a[2]>>
RECURSIVE EvalR(_, _, _, _, _)
EvalR(mu, w, x, s, i) == IF i > Len(x) THEN <<0, 0>>
                         ELSE TAdd(DigitElt(mu, w, x[i]), TMul(mu, TauPow(mu, s), EvalR(mu, w, x, s, i + 1)))
Eval(mu, w, x, s) == EvalR(mu, w, x, s, 1)
RECURSIVE HomEvalR(_, _, _, _, _, _, _)
HomEvalR(mu, w, x, s, lam, n, i) ==
    IF i > Len(x) THEN 0
    ELSE LET a == DigitElt(mu, w, x[i]) IN
         (a[1] + a[2] * lam + ((lam ^ s) % n) * HomEvalR(mu, w, x, s, lam, n, i + 1)) % n

(* quotient by tau^i for the digit set {0, 1} - the definition of the partial reduction *)
RECURSIVE TauQuot(_, _, _)
TauQuot(mu, x, i) == IF i = 0 THEN x
                     ELSE LET a == x[1] - (x[1] % 2) IN TauQuot(mu, <<x[2] + mu * (a \div 2), 0 - (a \div 2)>>, i - 1)
PartMod(mu, kk, mm) == TSub(<<kk, 0>>, TMul(mu, TSub(TauPow(mu, mm), <<1, 0>>), TauQuot(mu, <<kk, 0>>, mm)))

VARIABLES alg, mu, m, w, k, pc, i, a, b, r, R, ds
vars == <<alg, mu, m, w, k, pc, i, a, b, r, R, ds>>

Init == /\ alg \in {"tnaf", "rtnaf"} /\ mu \in {0 - 1, 1} /\ m \in Ms /\ w \in 2..WMax
        /\ k \in 0..(Pow2(KBits) - 1)
        /\ pc = "mod" /\ i = 0 /\ a = <<1, 0>> /\ b = <<0, 0>> /\ r = <<k, 0>> /\ R = <<0, 0>> /\ ds = <<>>

(* r := r / tau as coded: tmp = hlv(r0); r0 = r1 + mu tmp; r1 = -tmp *)
DivTau(x) == LET t == Hlv(x[1]) IN <<x[2] + mu * t, 0 - t>>
RECURSIVE DivTauN(_, _)
DivTauN(x, j) == IF j = 0 THEN x ELSE DivTauN(DivTau(x), j - 1)

(* ---------------------------------------------------------------- bn_rec_tnaf_mod *)
ModStep ==
    /\ pc = "mod" /\ i < m
    /\ LET odd == r[1] % 2 = 1
           r0a == IF odd THEN r[1] - 1 ELSE r[1]
       IN  /\ b' = IF odd THEN TAdd(b, a) ELSE b
           /\ r' = DivTau(<<r0a, r[2]>>)
           /\ a' = <<0 - 2 * a[2], a[1] + mu * a[2]>>
    /\ i' = i + 1
    /\ UNCHANGED <<alg, mu, m, w, k, pc, R, ds>>
ModEnd ==
    /\ pc = "mod" /\ i = m
    /\ r' = TAdd(r, b) /\ R' = TAdd(r, b)
    /\ pc' = alg /\ i' = 0
    /\ UNCHANGED <<alg, mu, m, w, k, a, b, ds>>

(* the low digit as the code reads it: dp[0], replaced by l - dp[0] (dig_t arithmetic) for a negative value *)
LowDig(x, l) == LET d == Abs(x) % DigMod IN IF x < 0 THEN (l - d) % DigMod ELSE d
(* table lookup and update r -= sign * alpha_(u >> 1), as coded; returns <<digit, r'>> *)
(* (an even u - only outside the domain of the regular form - may index past the 2^(w-2) entries that were   *)
(* written: the code then reads an unset entry of its 64-entry array, modelled as 0)                            *)
BetaAt(j) == IF j <= Pow2(w - 2) THEN BetaCoded(mu, w)[j] ELSE 0
GamaAt(j) == IF j <= Pow2(w - 2) THEN GamaCoded(mu, w)[j] ELSE 0
Lookup(u) ==
    IF u < 0 THEN LET j == (ToInt8(0 - u) \div 2) + 1 IN
                  <<u, <<r[1] + BetaAt(j), r[2] + GamaAt(j)>> >>
    ELSE LET j == (ToInt8(u) \div 2) + 1 IN
         <<u, <<r[1] - BetaAt(j), r[2] - GamaAt(j)>> >>

(* ---------------------------------------------------------------- bn_rec_tnaf *)
TnafZero ==
    /\ pc = "tnaf" /\ r # <<0, 0>> /\ r[1] % 2 = 0
    /\ ds' = Append(ds, 0) /\ r' = DivTau(r)
    /\ UNCHANGED <<alg, mu, m, w, k, pc, i, a, b, R>>
TnafDigit2 ==
    /\ pc = "tnaf" /\ r[1] % 2 = 1 /\ w = 2
    /\ LET l == 4
           t0 == LowDig(r[1], l)  t1 == LowDig(r[2], l)
           u == 2 - (((t0 - 2 * t1) % DigMod) % 4)
       IN  /\ ds' = Append(ds, ToInt8(u))
           /\ r' = DivTau(<<r[1] - u, r[2]>>)
    /\ UNCHANGED <<alg, mu, m, w, k, pc, i, a, b, R>>
TnafDigitW ==
    /\ pc = "tnaf" /\ r[1] % 2 = 1 /\ w > 2
    /\ LET l == Pow2(w)
           t0 == LowDig(r[1], l)  t1 == LowDig(r[2], l)
           u0 == ((t0 + TWCoded(mu, w) * t1) % DigMod) % l
           u == IF u0 >= l \div 2 THEN ToInt8(u0 - l) ELSE u0
           lk == Lookup(u)
       IN  /\ ds' = Append(ds, ToInt8(lk[1]))
           /\ r' = DivTau(lk[2])
    /\ UNCHANGED <<alg, mu, m, w, k, pc, i, a, b, R>>
TnafEnd ==
    /\ pc = "tnaf" /\ r = <<0, 0>>
    /\ pc' = "done"
    /\ UNCHANGED <<alg, mu, m, w, k, i, a, b, r, R, ds>>

(* ---------------------------------------------------------------- bn_rec_rtnaf *)
RtnafL == Ceil(m + 2, w - 1)
RtnafDigit2 ==
    /\ pc = "rtnaf" /\ i < RtnafL /\ w = 2
    /\ LET t0 == LowDig(r[1], 4)  t1 == LowDig(r[2], 4)
           u == (((t0 - 2 * t1) % DigMod) % 4) - 2
       IN  /\ ds' = Append(ds, ToInt8(u))
           /\ r' = DivTauN(<<r[1] - u, r[2]>>, w - 1)
    /\ i' = i + 1
    /\ UNCHANGED <<alg, mu, m, w, k, pc, a, b, R>>
RtnafDigitW ==
    /\ pc = "rtnaf" /\ i < RtnafL /\ w > 2
    /\ LET l == Pow2(w)
           t0 == LowDig(r[1], l)  t1 == LowDig(r[2], l)
           u == (((t0 + TWCoded(mu, w) * t1) % DigMod) % l) - Pow2(w - 1)
           lk == Lookup(u)
       IN  /\ ds' = Append(ds, ToInt8(lk[1]))
           /\ r' = DivTauN(lk[2], w - 1)
    /\ i' = i + 1
    /\ UNCHANGED <<alg, mu, m, w, k, pc, a, b, R>>
(* the last digit: the remainder itself, looked up in the table when both coordinates are non-zero *)
SignedLow(x) == IF x < 0 THEN 0 - (Abs(x) % DigMod) ELSE x % DigMod
RtnafFinal ==
    /\ pc = "rtnaf" /\ i = RtnafL
    /\ LET s == SignedLow(r[1])  t == SignedLow(r[2])
           J == 1..Pow2(w - 2)
           pos == {j \in J : BetaCoded(mu, w)[j] = s /\ GamaCoded(mu, w)[j] = t}
           neg == {j \in J : BetaCoded(mu, w)[j] = 0 - s /\ GamaCoded(mu, w)[j] = 0 - t}
           Min(S) == CHOOSE x \in S : \A y \in S : x <= y
           d1 == IF pos = {} THEN ds ELSE Append(ds, 2 * Min(pos) - 1)
           d2 == IF neg = {} THEN d1 ELSE Append(d1, 0 - (2 * Min(neg) - 1))
       IN  ds' = IF s # 0 /\ t # 0 THEN d2 ELSE IF t # 0 THEN Append(ds, ToInt8(t)) ELSE Append(ds, ToInt8(s))
    /\ pc' = "done"
    /\ UNCHANGED <<alg, mu, m, w, k, i, a, b, r, R>>

Next == ModStep \/ ModEnd \/ TnafZero \/ TnafDigit2 \/ TnafDigitW \/ TnafEnd
        \/ RtnafDigit2 \/ RtnafDigitW \/ RtnafFinal
Spec == Init /\ [][Next]_vars

(* ---------------------------------------------------------------- invariants *)
NonAdjacent(x, ww) == \A p \in 1..Len(x) : x[p] # 0 =>
                         \A q \in (p + 1)..(IF p + ww - 1 < Len(x) THEN p + ww - 1 ELSE Len(x)) : x[q] = 0
OddDigit(d) == d % 2 = 1 /\ Abs(d) < Pow2(w - 1)

(* nothing of k is lost while the low bits are stripped *)
ModPartial == pc = "mod" => /\ a = TauPow(mu, i)
                            /\ <<k, 0>> = TAdd(b, TMul(mu, a, r))
(* the partially reduced scalar: the definition, the congruence, every eigenvalue *)
ModDone == (pc \in {"tnaf", "rtnaf"} /\ ds = <<>>) =>
    /\ R = PartMod(mu, k, m)
    /\ Cong(mu, R, <<k, 0>>, Delta(mu, m))
    /\ Cong(mu, R, <<k, 0>>, TSub(TauPow(mu, m), <<1, 0>>))
    /\ \A lam \in Lambdas(mu, m) : (R[1] + R[2] * lam - k) % SubOrder(mu, m) = 0

TnafPartial == pc = "tnaf" => R = TAdd(Eval(mu, w, ds, 1), TMul(mu, TauPow(mu, Len(ds)), r))
TnafDone == (alg = "tnaf" /\ pc = "done") =>
    /\ Eval(mu, w, ds, 1) = R
    /\ Cong(mu, Eval(mu, w, ds, 1), <<k, 0>>, Delta(mu, m))
    /\ \A lam \in Lambdas(mu, m) : (HomEvalR(mu, w, ds, 1, lam, SubOrder(mu, m), 1) - k) % SubOrder(mu, m) = 0
    /\ \A p \in 1..Len(ds) : ds[p] = 0 \/ OddDigit(ds[p])
    /\ NonAdjacent(ds, w)
    /\ (Len(ds) > 0 => ds[Len(ds)] # 0)
    /\ (k < Pow2(m) => Len(ds) <= m + 8)

(* the regular form is defined for scalars below the group order whose partial reduction has two odd coordinates *)
RtnafDomain == R[1] % 2 = 1 /\ R[2] % 2 = 1 /\ k < SubOrder(mu, m)
RtnafPartial == (pc = "rtnaf" /\ RtnafDomain) =>
    /\ R = TAdd(Eval(mu, w, ds, w - 1), TMul(mu, TauPow(mu, Len(ds) * (w - 1)), r))
    /\ r[1] % 2 = 1
RtnafDone == (alg = "rtnaf" /\ pc = "done" /\ RtnafDomain) =>
    /\ Len(ds) = RtnafL + 1
    /\ Eval(mu, w, ds, w - 1) = R
    /\ Cong(mu, Eval(mu, w, ds, w - 1), <<k, 0>>, Delta(mu, m))
    /\ \A p \in 1..Len(ds) : OddDigit(ds[p])
Bounded == Len(ds) <= 2 * KBits + 12
=============================================================================
