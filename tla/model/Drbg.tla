-------------------------------- MODULE Drbg --------------------------------
(***************************************************************************)
(* The state update of rand_bytes (src/rand/relic_rand_hashd.c) AS CODED - *)
(* byte-wise big-endian additions rand_add / rand_inc with a signed        *)
(* SBits-wide intermediate, the carry of the H addition re-injected above  *)
(* the low hash-length bytes, the reseed counter added as one "digit" -    *)
(* at reduced widths (seedlen L bytes, digest HLen bytes), checked against *)
(* the standard's  V' = (V + H + C + reseed_counter) mod 2^seedlen  and    *)
(* the hashgen counter  data = (V + i) mod 2^seedlen.                      *)
(* SBits = 16 is the pinned text (int16_t s); the repaired text (int s) is  *)
(* modelled with SBits = 30, the widest TLC's 32-bit integers can express. *)
(***************************************************************************)
EXTENDS Naturals, Integers, Sequences, TLC

CONSTANTS L, HLen, SBits, Corners, CtrStarts, Steps

RECURSIVE Pow(_, _)
Pow(x, n) == IF n = 0 THEN 1 ELSE x * Pow(x, n - 1)

(* conversion of an int to a signed SBits-wide integer (two's complement wrap) *)
WrapS(x) == ((x + Pow(2, SBits - 1)) % Pow(2, SBits)) - Pow(2, SBits - 1)
(* s & 0xFF and s >> 8 (arithmetic) on a possibly negative s *)
LowByte(s) == s % 256
Sar8(s) == (s - (s % 256)) \div 256

(* big-endian byte sequences *)
RECURSIVE ValBE(_, _)
ValBE(s, i) == IF i > Len(s) THEN 0 ELSE s[i] * Pow(256, Len(s) - i) + ValBE(s, i + 1)
Val(s) == ValBE(s, 1)

(* rand_inc(data, size, digit): from the last byte upwards; returns <<data, carry>> *)
RECURSIVE IncR(_, _, _)
IncR(data, i, carry) ==
    IF i < 1 THEN <<data, carry>>
    ELSE LET s == WrapS(data[i] + carry)
         IN  IncR([data EXCEPT ![i] = LowByte(s)], i - 1, Sar8(s))
RandInc(data, size, digit) ==
    LET r == IncR(SubSeq(data, 1, size), size, digit)
    IN  <<r[1] \o SubSeq(data, size + 1, Len(data)), r[2]>>

(* rand_add(state, hash, size) with int16_t s (255+255+1 always fits) *)
RECURSIVE AddR(_, _, _, _)
AddR(state, hash, i, carry) ==
    IF i < 1 THEN <<state, carry>>
    ELSE LET s == state[i] + hash[i] + carry
         IN  AddR([state EXCEPT ![i] = s % 256], hash, i - 1, s \div 256)
RandAdd(state, hash) == AddR(state, hash, Len(state), 0)

(* rand_bytes' update on rand = <<prefix>> \o V \o C *)
Update(V, C, H, ctr) ==
    LET v1  == RandAdd(V, C)[1]                                  \* V += C (carry dropped)
        lo  == RandAdd(SubSeq(v1, L - HLen + 1, L), H)           \* low HLen bytes += H
        v2  == SubSeq(v1, 1, L - HLen) \o lo[1]
        r1  == RandInc(<<3>> \o v2, L - HLen + 1, lo[2])[1]      \* carry into the bytes above
        r2  == RandInc(r1, L + 1, ctr)[1]                        \* + reseed counter
    IN  SubSeq(r2, 2, L + 1)

VARIABLES V, C, ctr, n, ok
vars == <<V, C, ctr, n, ok>>

RECURSIVE Seqs(_)
Seqs(k) == IF k = 0 THEN {<<>>} ELSE {<<x>> \o s : x \in Corners, s \in Seqs(k - 1)}
ToBE(x, k) == [i \in 1..k |-> (x \div Pow(256, k - i)) % 256]

Init == V \in Seqs(L) /\ C \in Seqs(L) /\ ctr \in CtrStarts /\ n = 0 /\ ok = TRUE

(* one generate call with an arbitrary digest H *)
Generate == /\ n < Steps
            /\ \E H \in Seqs(HLen) :
                 /\ V' = Update(V, C, H, ctr)
                 /\ ok' = (/\ Val(Update(V, C, H, ctr)) = (Val(V) + Val(H) + Val(C) + ctr) % Pow(256, L)
                           \* hashgen counter: data + 1 through the same rand_inc
                           /\ Val(RandInc(V, L, 1)[1]) = (Val(V) + 1) % Pow(256, L))
            /\ ctr' = ctr + 1 /\ n' = n + 1 /\ C' = C
Next == Generate
Spec == Init /\ [][Next]_vars

FollowsStandard == ok
=============================================================================
