SPECIFICATION Spec
CONSTANTS
    Scheme = "pkcs1"
    K = 7
    A = 4
    MinPS = 2
    CheckPS = FALSE
    MaxN = 127
    HomMax = 33
    Qs = {5, 7}
    MaxShares = 4
INVARIANTS ParseInvertsEncode CodedIsDefinition AcceptedIsEncoding
CHECK_DEADLOCK FALSE
