------------------------------ MODULE MCCodec ------------------------------
(***************************************************************************)
(* Design-level check of model/Codec over a tiny world: the prime field    *)
(* F_PW (PW < 256, so a field element is ONE byte, fb = 1) and the curve   *)
(* y^2 = x^3 + CA x + CB.  The state graph is the tree of ALL byte strings *)
(* of length <= MaxLen (one state per string; the third byte is explored   *)
(* for first bytes in FirstBytes) plus one state per integer value in      *)
(* -VMax..VMax.  Every string goes through every decoder, every value      *)
(* through every encoder.  Invariants (C07):                               *)
(*   Dec(Enc(x)) = x, |Enc(x)| = advertised size,                          *)
(*   Dec(s) not Bad => Valid(Dec(s)) /\ Enc(Dec(s), same format) = s,      *)
(*   Dec accepts EXACTLY the image of Enc (computed by brute force with    *)
(*   TLC's native integers, independently of lib/Curve),                   *)
(*   text form = positional notation for every radix 2..64.                *)
(***************************************************************************)
EXTENDS Codec, FiniteSets, TLC
CONSTANTS PW, CA, CB, EA, ED, MaxLen, FirstBytes, VMax, TextLen, SqrtPrimes
VARIABLES s, v

P  == BFromNat(PW)
C  == [p |-> P, a |-> BFromNat(CA), b |-> BFromNat(CB)]
FB == 1
Sgs == {SgParity, SgHalf}
AllBytes == 0..255
FewTags == {0, 2, 3, 4, 5, 255}
OnlyFour == {4}

Init == s = <<>> /\ v = 0
Next == \/ /\ v = 0 /\ Len(s) < MaxLen
           /\ (Len(s) = 2 => s[1] \in FirstBytes)
           /\ \E b \in 0..255 : s' = Append(s, b)
           /\ v' = 0
        \/ /\ v = 0 /\ s = <<>>
           /\ \E n \in ((0 - VMax)..VMax) \ {0} : v' = n
           /\ s' = s
Spec == Init /\ [][Next]_<<s, v>>

(* ---- native (TLC integer) reference notions, independent of BigNat/Curve *)
RECURSIVE NatBE(_, _, _)
NatBE(t, i, acc) == IF i > Len(t) THEN acc ELSE NatBE(t, i + 1, acc * 256 + t[i])
NBE(t) == NatBE(t, 1, 0)
NOn(x, y) == (y * y) % PW = (x * x * x + CA * x + CB) % PW
NGroup == {PInf} \cup {Pt(BFromNat(q[1]), BFromNat(q[2])) :
                        q \in {xy \in (0..(PW - 1)) \X (0..(PW - 1)) : NOn(xy[1], xy[2])}}
Image(sg) == {EncPoint(Q, pk, C, FB, sg) : Q \in NGroup, pk \in BOOLEAN}
ImageP == Image(SgParity)
ImageH == Image(SgHalf)
Img(sg) == IF sg.kind = "half" THEN ImageH ELSE ImageP
RECURSIVE NatHorner(_, _, _, _)
NatHorner(ds, r, i, acc) == IF i > Len(ds) THEN acc ELSE NatHorner(ds, r, i + 1, acc * r + ds[i])
Abs(n) == IF n < 0 THEN 0 - n ELSE n

(* ---- every byte string through the integer decoders *)
BinInv == v = 0 =>
    LET x == BnDecBin(s)
        z == BnSizeBin(x)
    IN  /\ IsBigNat(x) /\ BToNat(x) = NBE(s)
        /\ z <= Len(s)
        /\ BnEncBin(x, Len(s)).ok /\ BnEncBin(x, Len(s)).v = s       \* same length reproduces the input
        /\ BnEncBin(x, z).ok /\ Len(BnEncBin(x, z).v) = z /\ BnDecBin(BnEncBin(x, z).v) = x
        /\ (z > 0 => ~BnEncBin(x, z - 1).ok /\ BnEncBin(x, z).v[1] # 0)
        /\ \A w \in {1, 2, 3} : (Len(s) > 0 /\ Len(s) % w = 0) =>
              LET y == BnDecRaw(s) IN
              /\ IsBigNat(y) /\ BnSizeRaw(y, w) <= Len(s) \div w
              /\ BnEncRaw(y, Len(s) \div w, w).ok /\ BnEncRaw(y, Len(s) \div w, w).v = s
              /\ ~BnEncRaw(y, BnSizeRaw(y, w) - 1, w).ok
              /\ BnDecRaw(BnEncRaw(y, BnSizeRaw(y, w), w).v) = y

(* ---- every byte string through the field decoders *)
FpInv == v = 0 =>
    LET d == FpDecBin(s, P, FB) IN
    /\ d.ok <=> (Len(s) = FB /\ NBE(s) < PW)
    /\ d.ok => InField(d.v, P) /\ FpEncBin(d.v, FB) = s /\ BToNat(d.v) = NBE(s)
    /\ \A dg \in {2, 3} :
          LET dx == FpxDecBin(s, P, FB, dg) IN
          /\ dx.ok <=> (Len(s) = dg * FB /\ \A i \in 1..Len(s) : s[i] < PW)
          /\ dx.ok => /\ \A i \in 1..dg : InField(dx.v[i], P)
                      /\ FpxEncBin(dx.v, FB) = s

(* ---- every byte string through the point decoder *)
EpInv == v = 0 =>
    \A sg \in Sgs :
        LET d == DecPoint(s, C, FB, sg) IN
        /\ d.ok <=> s \in Img(sg)                                     \* exactly the image of Enc
        /\ d.ok => /\ ValidPoint(d.v, C) /\ d.v \in NGroup
                   /\ LET pk == IF d.v.inf THEN FALSE ELSE PackOf(s) IN
                      EncPoint(d.v, pk, C, FB, sg) = s /\ Len(s) = EncSize(d.v, pk, FB)
        \* the named rejections
        /\ (Len(s) \notin {1, FB + 1, 2 * FB + 1}) => ~d.ok                       \* wrong length
        /\ (Len(s) >= 1 /\ s[1] \notin {0, 2, 3, 4}) => ~d.ok                     \* unknown tag
        /\ (Len(s) >= 1 /\ s[1] = 0 /\ Len(s) # 1) => ~d.ok
        /\ (Len(s) >= 1 /\ s[1] = 4 /\ Len(s) # 2 * FB + 1) => ~d.ok
        /\ (Len(s) >= 1 /\ s[1] \in {2, 3} /\ Len(s) # FB + 1) => ~d.ok
        /\ (Len(s) >= 2 /\ \E i \in 2..Len(s) : s[i] >= PW) => ~d.ok              \* coordinate >= p
        /\ (Len(s) = 3 /\ s[1] = 4 /\ s[2] < PW /\ s[3] < PW /\ ~NOn(s[2], s[3])) => ~d.ok  \* off curve
        /\ (Len(s) = 2 /\ s[1] \in {2, 3} /\ s[2] < PW /\ ~\E y \in 0..(PW - 1) : NOn(s[2], y)) => ~d.ok
        /\ (Len(s) = 3 /\ s[1] = 4 /\ s[2] < PW /\ s[3] < PW /\ NOn(s[2], s[3])) => d.ok

(* ---- every byte string through the Edwards point decoder (curve EA x^2 + y^2 = 1 + ED x^2 y^2) *)
EC == [p |-> P, a |-> BFromNat(EA), d |-> BFromNat(ED)]
NEdOn(x, y) == (EA * x * x + y * y) % PW = (1 + ((ED * x * x) % PW) * y * y) % PW
NEdGroup == {EdPt(BFromNat(q[1]), BFromNat(q[2])) :
                q \in {xy \in (0..(PW - 1)) \X (0..(PW - 1)) : NEdOn(xy[1], xy[2])}}
EdImageP == {EdEnc(Q, pk, EC, FB, SgParity) : Q \in NEdGroup, pk \in BOOLEAN}
EdImageH == {EdEnc(Q, pk, EC, FB, SgHalf) : Q \in NEdGroup, pk \in BOOLEAN}
EdImg(sg) == IF sg.kind = "half" THEN EdImageH ELSE EdImageP
EdInv == v = 0 =>
    \A sg \in Sgs :
        LET d == EdDec(s, EC, FB, sg) IN
        /\ d.ok <=> s \in EdImg(sg)
        /\ d.ok => /\ d.v \in NEdGroup /\ (d.v.inf \/ EdOnCurve(d.v, EC))
                   /\ LET pk == IF d.v.inf THEN FALSE ELSE PackOf(s) IN
                      EdEnc(d.v, pk, EC, FB, sg) = s /\ Len(s) = EdEncSize(d.v, pk, FB)
        /\ (s = <<>>) =>
              /\ EdNeutral \in NEdGroup
              /\ \A Q \in NEdGroup : \A pk \in BOOLEAN :
                    /\ EdDec(EdEnc(Q, pk, EC, FB, sg), EC, FB, sg) = Ok(Q)
                    /\ Len(EdEnc(Q, pk, EC, FB, sg)) = EdEncSize(Q, pk, FB)
              /\ Cardinality(EdImg(sg)) = 2 * Cardinality(NEdGroup) - 1

(* ---- every short byte string through the text reader, every radix *)
TextInv == (v = 0 /\ Len(s) <= TextLen) =>
    /\ \A r \in 2..64 :
        LET d == DecStr(s, r) IN
        /\ d.ok
        /\ IsNumeral(s, r) =>
              /\ BToNat(d.v.mag) = NatHorner(StrDigits(s, r), r, 1, 0)
              /\ d.v.neg = (StrNeg(s) /\ d.v.mag # <<>>)
        /\ IsCanonNumeral(s, r) <=> (Numeral(d.v, r) = s)
        /\ FpDecStr(s, r, P).ok /\ InField(FpDecStr(s, r, P).v, P)
    /\ \A r \in {0, 1, 65, 66, 255} : ~DecStr(s, r).ok /\ ~EncStr(IZero, r, 100).ok

(* ---- every integer value through the encoders *)
LowerCase(t) == [i \in 1..Len(t) |-> IF t[i] >= 65 /\ t[i] <= 90 THEN t[i] + 32 ELSE t[i]]
ValInv == (s = <<>>) =>
    LET x == IFromInt(v) IN
    \A r \in 2..64 :
        LET ds == NatDigits(x.mag, r)
            nm == Numeral(x, r)
            z  == SizeStr(x, r)
        IN  /\ \A i \in 1..Len(ds) : ds[i] \in 0..(r - 1)
            /\ (v # 0 => ds[1] # 0) /\ (v = 0 => ds = <<>>)
            /\ NatHorner(ds, r, 1, 0) = Abs(v)                         \* positional notation
            /\ PosValue(ds, r) = x.mag
            /\ IsCanonNumeral(nm, r)
            /\ DecStr(nm, r).ok /\ IEq(DecStr(nm, r).v, x)
            /\ z = Len(nm) + 1 /\ (r = 2 /\ v # 0 => z = BBits(x.mag) + (IF v < 0 THEN 1 ELSE 0) + 1)
            /\ (v = 0 => z = 2)
            /\ ~EncStr(x, r, z - 1).ok /\ ~EncStr(x, r, 0).ok
            /\ EncStr(x, r, z).ok /\ EncStr(x, r, z).v = nm \o <<0>> /\ EncStr(x, r, z + 1).v = nm \o <<0>>
            /\ IEq(DecStr(EncStr(x, r, z).v, r).v, x)                   \* the terminator ends the numeral
            /\ (r < 36 => IEq(DecStr(LowerCase(nm), r).v, x))
            /\ FpDecStr(nm, r, P).v = BFromNat(IF v < 0 THEN (PW - ((0 - v) % PW)) % PW ELSE v % PW)

(* ---- every field element and every point through the encoders (root state) *)
PointInv == (s = <<>> /\ v = 0) =>
    /\ \A x \in 0..(PW - 1) :
          /\ Len(FpEncBin(BFromNat(x), FB)) = FB
          /\ FpDecBin(FpEncBin(BFromNat(x), FB), P, FB) = Ok(BFromNat(x))
    /\ \A x, y \in {0, 1, PW - 1} :
          FpxDecBin(FpxEncBin(<<BFromNat(x), BFromNat(y)>>, FB), P, FB, 2) = Ok(<<BFromNat(x), BFromNat(y)>>)
    /\ \A Q \in NGroup : OnCurve(Q, C)
    /\ \A sg \in Sgs :
          /\ \A Q \in NGroup : \A pk \in BOOLEAN :
                LET e == EncPoint(Q, pk, C, FB, sg) IN
                /\ IsByteStr(e) /\ Len(e) = EncSize(Q, pk, FB)
                /\ DecPoint(e, C, FB, sg) = Ok(Q)
                /\ (~Q.inf => Upk(Pck(Q, C, sg)[1], Pck(Q, C, sg)[2], C, sg) = Ok(Q))
          /\ Cardinality(Img(sg)) = 2 * Cardinality(NGroup) - 1           \* injective
    (* the square root used by Decompress, for several primes incl. p = 1 mod 8 *)
    /\ \A q \in SqrtPrimes : \A a \in 0..(q - 1) :
          LET qq == BFromNat(q)
              a2 == BFromNat((a * a) % q)
              r  == FSqrt(a2, qq)
          IN  InField(r, qq) /\ FSqr(r, qq) = a2
=============================================================================
