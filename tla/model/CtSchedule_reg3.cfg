CONSTANTS N = 211  Wd = 3  Alg = "reg"
SPECIFICATION Spec
INVARIANTS SameSchedule Computes
CHECK_DEADLOCK FALSE
