--------------------------------- MODULE Enc ---------------------------------
(***************************************************************************)
(* C06 design-level models, checked exhaustively by TLC on tiny instances. *)
(* One module, four mechanisms selected by Scheme:                         *)
(*                                                                         *)
(* "oaep"   pad_pkcs2 RSA_ENC / RSA_ENC_FIN / RSA_DEC of relic_cp_rsa.c AS *)
(*          CODED (the block is an integer: leading zero bytes vanish, the *)
(*          separator is found with bn_size_bin, lengths are bookkept in   *)
(*          bytes) against RFC 8017 7.1 (EME-OAEP) with a toy 1-byte hash  *)
(*          and toy MGF over the byte alphabet 0..A-1 (closed under xor).  *)
(* "pkcs1"  pad_pkcs1 RSA_ENC / RSA_DEC as coded against RFC 8017 7.2      *)
(*          (00 02 PS 00 M, PS non-zero, |PS| >= MinPS); CheckPS = FALSE   *)
(*          is the decoder exactly as coded (it never counts PS), TRUE the *)
(*          decoder with the length test.                                  *)
(*   For both: every admissible message and every seed / padding string:   *)
(*   Parse(Encode(m)) = m; EVERY k-byte string is parsed by the coded      *)
(*   procedure exactly as by the definition (rejected, or the unique m),   *)
(*   and every accepted string is an encoding the encoder can produce.     *)
(* "paillier"  c = (1 + m n) r^n mod n^2, decryption by the L function     *)
(*          with lambda = (p-1)(q-1) and by the CRT route of bn_mxp_crt    *)
(*          (sqr = 1) as coded, for EVERY n = p q <= MaxN, every m and r;  *)
(*          product of ciphertexts decrypts to the sum mod n (incl. wrap). *)
(* "shamir"  mpc_sss_gen / mpc_sss_key as coded (x_i = i, Horner, Lagrange *)
(*          at 0 with a_i = prod x_m, b_i = prod (x_m - x_i)) over Z_q for *)
(*          every polynomial of degree < t: every t-subset reconstructs,   *)
(*          t-1 shares are consistent with every secret.                   *)
(***************************************************************************)
EXTENDS Integers, Sequences, FiniteSets, Bitwise, TLC

CONSTANTS Scheme, K, A, MinPS, CheckPS, MaxN, HomMax, Qs, MaxShares

VARIABLES kind, v1, v2, v3, v4, v5
vars == <<kind, v1, v2, v3, v4, v5>>

Bytes == 0..(A - 1)
Strs(n) == [1..n -> Bytes]
Rest(s, i) == SubSeq(s, i, Len(s))
ZerosN(n) == [i \in 1..n |-> 0]
RECURSIVE FirstNonZero(_, _)
FirstNonZero(s, i) == IF i > Len(s) THEN 0 ELSE IF s[i] # 0 THEN i ELSE FirstNonZero(s, i + 1)
RECURSIVE FirstZero(_, _)
FirstZero(s, i) == IF i > Len(s) THEN 0 ELSE IF s[i] = 0 THEN i ELSE FirstZero(s, i + 1)
Ok(m) == [ok |-> TRUE, m |-> m]
Bad == [ok |-> FALSE, m |-> <<>>]

(* ------------------------------------------------------------------ OAEP *)
HL == 1
RECURSIVE SumW(_, _)
SumW(s, i) == IF i > Len(s) THEN 0 ELSE (i + 1) * s[i] + SumW(s, i + 1)
ToyHash(s) == <<(SumW(s, 1) + Len(s) + 1) % A>>
LHash == ToyHash(<<>>)
ToyMgf(seed, n) == [i \in 1..n |-> ToyHash(seed \o <<i % A>>)[1]]
XorS(a, b) == [i \in 1..Len(a) |-> a[i] ^^ b[i]]
OaepMax == K - 2 * HL - 2
OaepEncodeDef(m, seed) ==
    LET DB == LHash \o ZerosN(K - Len(m) - 2 * HL - 2) \o <<1>> \o m
        mDB == XorS(DB, ToyMgf(seed, K - HL - 1))
        mSeed == XorS(seed, ToyMgf(mDB, HL))
    IN  <<0>> \o mSeed \o mDB
OaepDecodeDef(EM) ==
    IF EM[1] # 0 THEN Bad
    ELSE LET mSeed == SubSeq(EM, 2, HL + 1)
             mDB == SubSeq(EM, HL + 2, K)
             seed == XorS(mSeed, ToyMgf(mDB, HL))
             DB == XorS(mDB, ToyMgf(seed, K - HL - 1))
             rest == Rest(DB, HL + 1)
             j == FirstNonZero(rest, 1)
         IN  IF SubSeq(DB, 1, HL) # LHash \/ j = 0 THEN Bad
             ELSE IF rest[j] # 1 THEN Bad
             ELSE Ok(Rest(rest, j + 1))
(* as coded.  The block is an INTEGER m; here: its big-endian bytes.  SizeBin(s) = bn_size_bin of the value of s. *)
SizeBin(s) == LET j == FirstNonZero(s, 1) IN IF j = 0 THEN 1 ELSE Len(s) - j + 1
LowBytes(s, n) == SubSeq(s, Len(s) - n + 1, Len(s))                  \* bn_mod_2b(m, m, 8 n)
HighFrom(s, n) == SubSeq(s, 1, Len(s) - n)                           \* bn_rsh(t, m, 8 n)
OaepEncodeCoded(msg, seed) ==
    LET mlen == Len(msg)
        plen == K - 2 * HL - 2 - mlen                                \* *p_len
        (* RSA_ENC: lHash, shifted by p_len bytes, by one more, + 01, shifted by m_len bytes, + message *)
        eb == LHash \o ZerosN(plen) \o <<1>> \o msg
        (* RSA_ENC_FIN: m xor mask (K - HL - 1 bytes), then maskedSeed on top *)
        mDB == XorS(eb, ToyMgf(seed, K - HL - 1))
        h1 == XorS(seed, ToyMgf(mDB, HL))
    IN  <<0>> \o h1 \o mDB                                            \* written with bn_write_bin(out, size, eb)
OaepDecodeCoded(EM) ==
    LET ml1 == K - 1 IN
    IF HighFrom(EM, ml1) # <<0>> THEN Bad                             \* bn_rsh(t, m, 8 m_len); bn_is_zero(t)
    ELSE LET ml2 == ml1 - HL
             h1 == SubSeq(EM, 2, HL + 1)                              \* bn_write_bin(h1, MD_LEN, m >> 8 m_len)
             mDB == LowBytes(EM, ml2)
             seed == XorS(h1, ToyMgf(mDB, HL))
             DB == XorS(mDB, ToyMgf(seed, K - HL - 1))
             ml3 == ml2 - HL
             h2 == HighFrom(DB, ml3)                                  \* lHash'
             low == LowBytes(DB, ml3)                                 \* bn_mod_2b(m, m, 8 m_len)
             plen == SizeBin(low) - 1                                 \* *p_len = bn_size_bin(m) - 1
             top == HighFrom(low, plen)                               \* bn_rsh(t, m, 8 p_len): the leading bytes
             topIsOne == FirstNonZero(top, 1) = Len(top) /\ Len(top) >= 1 /\ top[Len(top)] = 1   \* bn_cmp_dig(t, 1)
         IN  IF h2 = LHash /\ topIsOne THEN Ok(LowBytes(low, plen)) ELSE Bad

(* ----------------------------------------------------------------- PKCS1 *)
Pkcs1Max == K - 3 - MinPS
NonZeroStrs(n) == [1..n -> Bytes \ {0}]
Pkcs1EncodeDef(m, ps) == <<0, 2>> \o ps \o <<0>> \o m
(* the library declines the empty message at encryption; its scheme is 1 <= |M| <= k - 3 - MinPS *)
Pkcs1DecodeDef(EM) ==
    IF EM[1] # 0 \/ EM[2] # 2 THEN Bad
    ELSE LET j == FirstZero(EM, 3) IN
         IF j = 0 \/ j - 3 < MinPS \/ j = K THEN Bad ELSE Ok(Rest(EM, j + 1))
(* pad_pkcs1(RSA_DEC): byte(j) = bit 8j.. of the integer = EM[K - j] *)
B(EM, j) == EM[K - j]
RECURSIVE ScanPS(_, _)
ScanPS(EM, mlen) == LET m2 == mlen - 1 IN IF B(EM, m2) # 0 /\ m2 > 0 THEN ScanPS(EM, m2) ELSE m2
Pkcs1DecodeCoded(EM) ==
    IF B(EM, K - 1) # 0 THEN Bad
    ELSE IF B(EM, K - 2) # 2 THEN Bad
    ELSE LET mlen == ScanPS(EM, K - 2)                                \* do { m_len--; pad = byte } while (pad != 0 && m_len > 0)
             pslen == (K - 2) - mlen - 1                              \* bytes skipped before the separator
         IN  IF mlen <= 0 THEN Bad                                    \* result = (m_len > 0 ? RLC_OK : RLC_ERR)
             ELSE IF CheckPS /\ pslen < MinPS THEN Bad
             ELSE Ok(LowBytes(EM, mlen))

(* -------------------------------------------------------------- Paillier *)
RECURSIVE PowMod(_, _, _)
PowMod(a, e, n) == IF e = 0 THEN 1 % n
                   ELSE LET h == PowMod(a, e \div 2, n) IN
                        IF e % 2 = 0 THEN (h * h) % n ELSE (((h * h) % n) * (a % n)) % n
RECURSIVE GcdN(_, _)
GcdN(a, b) == IF b = 0 THEN a ELSE GcdN(b, a % b)
InvMod(a, n) == CHOOSE x \in 1..(n - 1) : (a * x) % n = 1
IsPrime(p) == p >= 2 /\ \A d \in 2..(p - 1) : p % d # 0
Moduli == {pq \in (3..MaxN) \X (3..MaxN) : pq[1] < pq[2] /\ pq[1] * pq[2] <= MaxN /\ IsPrime(pq[1]) /\ IsPrime(pq[2])
                                             /\ GcdN(pq[1] * pq[2], (pq[1] - 1) * (pq[2] - 1)) = 1}
PEnc(m, r, n) == (((1 + m * n) % (n * n)) * PowMod(r, n, n * n)) % (n * n)
(* cp_phpe_dec without CRT *)
PDecL(c, p, q) ==
    LET n == p * q  lam == (p - 1) * (q - 1) IN
    (((PowMod(c, lam, n * n) - 1) \div n) * InvMod(lam, n)) % n
(* cp_phpe_gen (CP_CRT) + bn_mxp_crt(m, c, p - 1, q - 1, prv, 1) as coded *)
PDecCrt(c, p, q) ==
    LET dp == InvMod(((p - 1) * q) % p, p)
        dq == InvMod(((q - 1) * p) % q, q)
        qi == InvMod(q % p, p)
        mp == (((PowMod(c, p - 1, p * p) - 1) \div p) * dp) % p
        mq == (((PowMod(c, q - 1, q * q) - 1) \div q) * dq) % q
        d  == (mp - mq) % p                                          \* while negative add p
    IN  ((d * qi) % p) * q + mq
Units(n) == {r \in 1..(n - 1) : GcdN(r, n) = 1}

(* ---------------------------------------------------------------- Shamir *)
RECURSIVE Horner(_, _, _, _)
Horner(a, x, q, j) == IF j = 0 THEN 0 ELSE (Horner(a, x, q, j - 1) * x + a[Len(a) - j + 1]) % q
(* bn_evl: c = 0; for j = k-1 downto 0: c = c x + a[j]  - coefficient a[1] = secret *)
Eval(a, x, q) == Horner(a, x, q, Len(a))
RECURSIVE ProdOver(_, _, _, _)
SeqOfSet(S) == CHOOSE s \in [1..Cardinality(S) -> S] : \A i, j \in 1..Cardinality(S) : i < j => s[i] < s[j]
(* mpc_sss_key on shares (x, y) of the index sequence idx *)
ProdOver(idx, i, f(_), q) ==
    IF idx = <<>> THEN 1 ELSE ((IF Head(idx) = i THEN 1 ELSE f(Head(idx)) % q) * ProdOver(Tail(idx), i, f, q)) % q
SssKey(idx, y, q) ==
    LET a(i) == ProdOver(idx, i, LAMBDA m : m, q)                     \* x_m = m
        b(i) == ProdOver(idx, i, LAMBDA m : (m - i) % q, q)           \* bn_sub; bn_mod
        term(i) == (((a(i) * InvMod(b(i), q)) % q) * y[i]) % q
        RECURSIVE Sum(_)
        Sum(s) == IF s = <<>> THEN 0 ELSE (term(Head(s)) + Sum(Tail(s))) % q
    IN  Sum(idx)
Polys(q, t) == [1..t -> 0..(q - 1)]
SharesOf(a, n, q) == [i \in 1..n |-> Eval(a, i, q)]

(* ------------------------------------------------------------------ spec *)
(* one state per enumerated instance *)
Init ==
    CASE Scheme = "oaep" ->
            \/ /\ kind = "enc" /\ (\E n \in 0..OaepMax : v1 \in Strs(n))
               /\ v2 \in Strs(HL) /\ v3 = 0 /\ v4 = 0 /\ v5 = 0
            \/ /\ kind = "str" /\ v1 \in Strs(K) /\ v2 = 0 /\ v3 = 0 /\ v4 = 0 /\ v5 = 0
      [] Scheme = "pkcs1" ->
            \/ /\ kind = "enc" /\ (\E n \in 1..Pkcs1Max : (v1 \in Strs(n) /\ v2 \in NonZeroStrs(K - 3 - n)))
               /\ v3 = 0 /\ v4 = 0 /\ v5 = 0
            \/ /\ kind = "str" /\ v1 \in Strs(K) /\ v2 = 0 /\ v3 = 0 /\ v4 = 0 /\ v5 = 0
      [] Scheme = "paillier" ->
            /\ kind = "hom" /\ v1 \in Moduli
            /\ LET n == v1[1] * v1[2] IN
               /\ v2 \in 0..(n - 1) /\ v3 \in Units(n)
               /\ IF n <= HomMax THEN v4 \in 0..(n - 1) /\ v5 \in Units(n)
                  ELSE v4 \in {0, 1, n - 1, n - v2} /\ v5 \in {1, n - 1}
      [] Scheme = "shamir" ->
            /\ kind = "sss" /\ v1 \in Qs
            /\ v2 \in 2..MaxShares /\ v2 < v1                         \* n shares, x_i = i distinct and non-zero mod q
            /\ v3 \in 2..v2                                           \* threshold
            /\ v4 \in Polys(v1, v3) /\ v5 = 0
Next == UNCHANGED vars
Spec == Init /\ [][Next]_vars

(* ------------------------------------------------------------ invariants *)
PadEncodeCoded == IF Scheme = "oaep" THEN OaepEncodeCoded(v1, v2) ELSE Pkcs1EncodeDef(v1, v2)
PadEncodeDef == IF Scheme = "oaep" THEN OaepEncodeDef(v1, v2) ELSE Pkcs1EncodeDef(v1, v2)
PadDecodeCoded(EM) == IF Scheme = "oaep" THEN OaepDecodeCoded(EM) ELSE Pkcs1DecodeCoded(EM)
PadDecodeDef(EM) == IF Scheme = "oaep" THEN OaepDecodeDef(EM) ELSE Pkcs1DecodeDef(EM)
(* the encoder as coded builds the defined block and the parser inverts it *)
ParseInvertsEncode ==
    kind = "enc" => /\ PadEncodeCoded = PadEncodeDef
                    /\ PadDecodeCoded(PadEncodeCoded) = Ok(v1)
(* every byte string: the coded parser and the definition agree (rejected, or the same unique message) *)
CodedIsDefinition == kind = "str" => PadDecodeCoded(v1) = PadDecodeDef(v1)
(* every accepted string is an encoding of the returned message (so nothing but honest encodings is accepted) *)
AcceptedIsEncoding ==
    kind = "str" =>
        LET d == PadDecodeDef(v1) IN
        d.ok => IF Scheme = "oaep"
                THEN \E seed \in Strs(HL) : OaepEncodeDef(d.m, seed) = v1
                ELSE Len(d.m) >= 1 /\ Len(d.m) <= Pkcs1Max /\ Pkcs1EncodeDef(d.m, SubSeq(v1, 3, K - Len(d.m) - 1)) = v1

PaillierInverts ==
    kind = "hom" =>
        LET p == v1[1]  q == v1[2]  n == p * q  c == PEnc(v2, v3, n) IN
        PDecL(c, p, q) = v2 /\ PDecCrt(c, p, q) = v2
PaillierHomomorphic ==
    kind = "hom" =>
        LET p == v1[1]  q == v1[2]  n == p * q
            c3 == (PEnc(v2, v3, n) * PEnc(v4, v5, n)) % (n * n)
        IN  PDecL(c3, p, q) = (v2 + v4) % n /\ PDecCrt(c3, p, q) = (v2 + v4) % n

Subsets(n, k) == {S \in SUBSET (1..n) : Cardinality(S) = k}
ShamirReconstructs ==
    kind = "sss" =>
        LET q == v1  n == v2  t == v3  y == SharesOf(v4, n, q) IN
        \A S \in Subsets(n, t) : SssKey(SeqOfSet(S), y, q) = v4[1]
(* t - 1 shares do not determine the secret: for every other secret there is a polynomial with the same t - 1 shares *)
ShamirHides ==
    kind = "sss" /\ v1 ^ v3 <= 700 =>
        LET q == v1  n == v2  t == v3  y == SharesOf(v4, n, q) IN
        \A S \in Subsets(n, t - 1) : \A s2 \in 0..(q - 1) :
            \E a2 \in Polys(q, t) : a2[1] = s2 /\ \A i \in S : Eval(a2, i, q) = y[i]
=============================================================================
