CONSTANTS
  PW = 7
  QN = 6
  A0 = 0
  A1 = 0
  B0 = 1
  B1 = 1
  TagSet <- Tags6
SPECIFICATION Spec
INVARIANTS StrInv RootInv F2PackInv
CHECK_DEADLOCK FALSE
