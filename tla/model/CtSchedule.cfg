CONSTANTS N = 251  Wd = 4  Alg = "ladder"
SPECIFICATION Spec
INVARIANTS SameSchedule Computes
CHECK_DEADLOCK FALSE
