CONSTANT Polys = {7, 11, 13, 19, 25, 37, 61, 67, 131, 283, 529, 1033}
CONSTANT IrrMax = 2100
INIT Init
NEXT Next
INVARIANT Correct
CHECK_DEADLOCK FALSE
