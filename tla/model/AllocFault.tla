----------------------------- MODULE AllocFault -----------------------------
(***************************************************************************)
(* C08, fault sequences: the temporaries discipline of the library under   *)
(* dynamic allocation, with an allocation failure injected at the k-th     *)
(* allocation.  A function is                                              *)
(*     t_i = NULL for all i;                                               *)
(*     RLC_TRY { new(t_1) ... new(t_j); call G; new(t_j+1) ... ; body }    *)
(*     RLC_CATCH_ANY { RLC_THROW(ERR_CAUGHT) }                             *)
(*     RLC_FINALLY { free(t_i) for all i }     (free(NULL) is a no-op)     *)
(* and G has the same shape.  `new` throws ERR_NO_MEMORY when the          *)
(* allocator returns NULL.  Invariants: the failure is reported to the     *)
(* caller, every temporary allocated before the failure is freed exactly   *)
(* once, nothing is used after it was freed, no allocation is left live.   *)
(* Discipline = "tryfinally" is what the code does; "leaky" (a temporary   *)
(* created before the protected block of G) is the control TLC must refute.*)
(***************************************************************************)
EXTENDS Naturals, Sequences, FiniteSets, TLC

CONSTANTS NF, NG,          \* temporaries of F and of G
          Discipline

VARIABLES k,        \* which allocation attempt fails (0 = none)
          attempts, \* allocation attempts so far
          live,     \* set of live temporaries <<fn, i>>
          freed,    \* bag: how often each temporary was freed
          pcF, pcG, \* program counters
          err,      \* error propagating / reported
          used_after_free, reported
vars == <<k, attempts, live, freed, pcF, pcG, err, used_after_free, reported>>

Temps == {<<"F", i>> : i \in 1..NF} \cup {<<"G", i>> : i \in 1..NG}
CallAt == (NF + 1) \div 2          \* F calls G after this many of its own allocations

Init == /\ k \in 0..(NF + NG) /\ attempts = 0 /\ live = {} /\ freed = [t \in Temps |-> 0]
        /\ pcF = <<"alloc", 1>> /\ pcG = <<"idle", 0>> /\ err = FALSE
        /\ used_after_free = FALSE /\ reported = FALSE

TryAlloc(t) == attempts + 1 # k          \* succeeds unless this is the failing attempt

(* F allocates its i-th temporary, or calls G, inside its protected block *)
FAlloc ==
    /\ pcF[1] = "alloc" /\ pcG[1] = "idle" /\ ~err
    /\ LET i == pcF[2] IN
       IF i > NF THEN pcF' = <<"body", 0>> /\ UNCHANGED <<attempts, live, err, pcG>>
       ELSE IF i = CallAt + 1 /\ pcG[2] = 0
       THEN pcG' = <<"alloc", 1>> /\ UNCHANGED <<attempts, live, err, pcF>>       \* call G first
       ELSE /\ attempts' = attempts + 1
            /\ IF TryAlloc(<<"F", i>>)
               THEN live' = live \cup {<<"F", i>>} /\ pcF' = <<"alloc", i + 1>> /\ UNCHANGED err
               ELSE err' = TRUE /\ pcF' = <<"finally", 0>> /\ UNCHANGED live        \* throw -> finally
            /\ UNCHANGED pcG
    /\ UNCHANGED <<k, freed, used_after_free, reported>>

GAlloc ==
    /\ pcG[1] = "alloc"
    /\ LET i == pcG[2] IN
       IF i > NG THEN pcG' = <<"finally", 0>> /\ UNCHANGED <<attempts, live, err>>
       ELSE /\ attempts' = attempts + 1
            /\ IF TryAlloc(<<"G", i>>)
               THEN live' = live \cup {<<"G", i>>} /\ pcG' = <<"alloc", i + 1>> /\ UNCHANGED err
               ELSE /\ err' = TRUE /\ UNCHANGED live
                    \* "leaky": G's first temporary is created BEFORE its protected block, so a later
                    \* failure leaves through the caller's handler without G's finaliser
                    /\ pcG' = IF Discipline = "leaky" /\ i > 1 THEN <<"done", 1>> ELSE <<"finally", 0>>
    /\ UNCHANGED <<k, freed, pcF, used_after_free, reported>>

(* finaliser of G: free every temporary (free(NULL) for those never allocated) *)
GFinally ==
    /\ pcG[1] = "finally"
    /\ LET mine == {t \in live : t[1] = "G"} IN
       /\ live' = live \ mine
       /\ freed' = [t \in Temps |-> IF t \in mine THEN freed[t] + 1 ELSE freed[t]]
    /\ pcG' = <<"done", 1>>
    /\ UNCHANGED <<k, attempts, pcF, err, used_after_free, reported>>

(* G returned (normally or by rethrow) *)
GReturn ==
    /\ pcG[1] = "done"
    /\ pcG' = <<"idle", 1>>
    /\ pcF' = IF err THEN <<"finally", 0>> ELSE pcF
    /\ UNCHANGED <<k, attempts, live, freed, err, used_after_free, reported>>

(* F's body uses all its temporaries *)
FBody ==
    /\ pcF[1] = "body" /\ pcG[1] = "idle"
    /\ used_after_free' = (used_after_free \/ \E i \in 1..NF : <<"F", i>> \notin live)
    /\ pcF' = <<"finally", 0>>
    /\ UNCHANGED <<k, attempts, live, freed, pcG, err, reported>>

FFinally ==
    /\ pcF[1] = "finally" /\ pcG[1] \in {"idle"}
    /\ LET mine == {t \in live : t[1] = "F"} IN
       /\ live' = live \ mine
       /\ freed' = [t \in Temps |-> IF t \in mine THEN freed[t] + 1 ELSE freed[t]]
    /\ reported' = err
    /\ pcF' = <<"done", 0>>
    /\ UNCHANGED <<k, attempts, pcG, err, used_after_free>>

Next == FAlloc \/ GAlloc \/ GFinally \/ GReturn \/ FBody \/ FFinally
Spec == Init /\ [][Next]_vars

Done == pcF[1] = "done"
(* a failure that happened is reported; none is reported otherwise *)
Reported == Done => (reported <=> (k > 0 /\ k <= attempts))
NoLeak == Done => live = {}
FreedOnce == \A t \in Temps : freed[t] <= 1
NoUseAfterFree == ~used_after_free
=============================================================================
