CONSTANTS
    Primes = {5, 7, 11, 13}
    Zs = {1, 2, 3}
SPECIFICATION Spec
INVARIANT Inv1
CHECK_DEADLOCK FALSE
