------------------------------- MODULE ShaCtx -------------------------------
(***************************************************************************)
(* The streaming / buffering layer of src/md/sha224-256.c and              *)
(* src/md/sha384-512.c (RFC 4634 code) as pure operators on a context      *)
(* record, shaped like the implementation:                                 *)
(*   h          Intermediate_Hash (whatever the compression function F     *)
(*              works on: F(h, block) is a PARAMETER - abstract in the     *)
(*              design-level model ShaStream, the real FIPS 180-4          *)
(*              compression in the trace specification MdTrace)            *)
(*   blk        Message_Block[0 .. Message_Block_Index)                    *)
(*   lo, hi     Length_Low, Length_High (bits)                             *)
(*   computed   Computed;  corrupted  Corrupted (0 or an error code)       *)
(* P = [B |-> block bytes, LB |-> bytes of one length word,                *)
(*      M |-> modulus of one length word, 0 = never wraps (used by the     *)
(*            trace specification, whose inputs are far below 2^32 bits;   *)
(*            2^32 is not a TLC integer; the carry and overflow paths are  *)
(*            exercised by the scaled-down model)]                         *)
(* Every operator returns <<context', return code>>.                       *)
(***************************************************************************)
EXTENDS Words16

ShaSuccess == 0
ShaNull == 1
ShaInputTooLong == 2
ShaStateError == 3

CtxReset(h0) == [h |-> h0, blk |-> <<>>, lo |-> 0, hi |-> 0, computed |-> FALSE, corrupted |-> 0]

Wrap(x, P) == IF P.M = 0 THEN x ELSE x % P.M

(* SHA224_256AddLength: add n bits; a carry out of Length_Low increments     *)
(* Length_High; Corrupted := 1 exactly when that wraps to 0, else 0          *)
AddLength(c, n, P) ==
    LET lo2 == Wrap(c.lo + n, P)
        carry == lo2 < c.lo
        hi2 == IF carry THEN Wrap(c.hi + 1, P) ELSE c.hi
    IN [c EXCEPT !.lo = lo2, !.hi = hi2,
                 !.corrupted = IF carry /\ hi2 = 0 THEN 1 ELSE 0]

(* SHA224_256ProcessMessageBlock: consume the (full) block *)
Process(c, F(_, _)) == [c EXCEPT !.h = F(c.h, c.blk), !.blk = <<>>]

(* one iteration of the while loop of SHA256Input *)
InputByte(c, b, P, F(_, _)) ==
    IF c.corrupted # 0 THEN c
    ELSE LET c1 == AddLength([c EXCEPT !.blk = Append(@, b)], 8, P) IN
         IF c1.corrupted = 0 /\ Len(c1.blk) = P.B THEN Process(c1, F) ELSE c1

CtxInput(c, chunk, P, F(_, _)) ==
    IF Len(chunk) = 0 THEN <<c, ShaSuccess>>
    ELSE IF c.computed THEN <<[c EXCEPT !.corrupted = ShaStateError], ShaStateError>>
    ELSE IF c.corrupted # 0 THEN <<c, c.corrupted>>
    ELSE <<Iter(LAMBDA x, i : InputByte(x, chunk[i], P, F), c, 1, Len(chunk)), ShaSuccess>>

BE(x, n) == Eager([j \in 1..n |-> LET e == n - j IN IF e >= 4 THEN 0 ELSE (x \div (256 ^ e)) % 256])

(* SHA224_256PadMessage *)
PadMessage(c, padByte, P, F(_, _)) ==
    LET room == P.B - 2 * P.LB
        c1 == IF Len(c.blk) >= room
              THEN Process([c EXCEPT !.blk = @ \o <<padByte>> \o Zeros(P.B - Len(@) - 1)], F)
              ELSE [c EXCEPT !.blk = Append(@, padByte)]
        c2 == [c1 EXCEPT !.blk = @ \o Zeros(room - Len(@)) \o BE(c1.hi, P.LB) \o BE(c1.lo, P.LB)]
    IN Process(c2, F)

(* SHA224_256Finalize *)
Finalize(c, padByte, P, F(_, _)) ==
    [PadMessage(c, padByte, P, F) EXCEPT !.blk = <<>>, !.lo = 0, !.hi = 0, !.computed = TRUE]

Masks == <<0, 128, 192, 224, 240, 248, 252, 254>>
MarkBit == <<128, 64, 32, 16, 8, 4, 2, 1>>

(* SHA256FinalBits(context, message_bits, length) *)
CtxFinalBits(c, bits, n, P, F(_, _)) ==
    IF n = 0 THEN <<c, ShaSuccess>>
    ELSE IF c.computed \/ n >= 8 THEN <<[c EXCEPT !.corrupted = ShaStateError], ShaStateError>>
    ELSE IF c.corrupted # 0 THEN <<c, c.corrupted>>
    ELSE <<Finalize(AddLength(c, n, P), (bits & Masks[n + 1]) | MarkBit[n + 1], P, F), ShaSuccess>>

(* SHA224_256ResultN: <<context', code>>; the digest is read from context'.h *)
CtxResult(c, P, F(_, _)) ==
    IF c.corrupted # 0 THEN <<c, c.corrupted>>
    ELSE IF ~c.computed THEN <<Finalize(c, 128, P, F), ShaSuccess>>
    ELSE <<c, ShaSuccess>>
=============================================================================
