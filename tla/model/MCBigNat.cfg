CONSTANT N = 255
INIT Init
NEXT Next
INVARIANT Correct
CHECK_DEADLOCK FALSE
