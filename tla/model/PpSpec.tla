------------------------------- MODULE PpSpec -------------------------------
(***************************************************************************)
(* C04: bilinearity, non-degeneracy and order of the pairings, stated       *)
(* relationally over ghost logarithms.  An event is one pairing evaluation  *)
(* on points the driver constructed as P_i = [a_i]G1, Q_i = [b_i]G2 (the    *)
(* spec VERIFIES that they are those multiples, with lib/Curve over F_p and *)
(* lib/CurveX over F_p2), with its value g in F_p12 (12 base coefficients). *)
(* With g0 the value on the generators (first event of a segment):          *)
(*      g = g0 ^ (sum a_i b_i mod r)   g0 # 1   g0 ^ r = 1                 *)
(* which contains bilinearity in both arguments, the identity cases         *)
(* (a_i = 0 mod r or b_i = 0 mod r), products of pairings and independence  *)
(* of the representation of the inputs.  Powers in F_p12 are generic        *)
(* quotient-ring arithmetic (lib/Tower), never RELIC's gt_exp.              *)
(***************************************************************************)
EXTENDS BigInt, Curve, CurveX

Pm(e) == BNorm(e.p)
Ord(e) == BNorm(e.r.d)
BnI(o) == I(o.s = 1, o.d)
Zero2 == <<<<>>, <<>>>>
One2 == <<<<1>>, <<>>>>
T12(e) == [p |-> Pm(e),
           lv |-> <<[deg |-> 2, nr |-> BNorm(e.usq0)],
                    [deg |-> 3, nr |-> <<BNorm(e.xi0), BNorm(e.xi1)>>],
                    [deg |-> 2, nr |-> <<Zero2, One2, Zero2>>]>>]
T2(e) == [p |-> Pm(e), lv |-> <<[deg |-> 2, nr |-> BNorm(e.usq0)]>>]
RECURSIVE NormAll(_, _)
NormAll(s, i) == IF i > Len(s) THEN <<>> ELSE <<BNorm(s[i])>> \o NormAll(s, i + 1)
Gt(e) == TUnflat(T12(e), 3, NormAll(e.g, 1))
One12(e) == TOne(T12(e), 3)

(* balanced square-and-multiply folds (recursion depth O(log bits)) *)
RECURSIVE PowF(_, _, _, _, _, _)
PowF(T, x, n, acc, lo, hi) ==
    IF hi - lo = 1
    THEN LET s == TMul(T, 3, acc, acc) IN IF BBit(n, lo) = 1 THEN TMul(T, 3, s, x) ELSE s
    ELSE LET mid == (lo + hi) \div 2
             a1  == PowF(T, x, n, acc, mid, hi)
         IN  IF a1 = a1 THEN PowF(T, x, n, a1, lo, mid) ELSE a1
Pow12(e, x, n) == IF BBits(n) = 0 THEN One12(e) ELSE PowF(T12(e), x, n, One12(e), 0, BBits(n))
RECURSIVE XMulF(_, _, _, _, _, _)
XMulF(n, P, c, acc, lo, hi) ==
    IF hi - lo = 1
    THEN LET d == XDbl(acc, c) IN IF BBit(n, lo) = 1 THEN XAdd(d, P, c) ELSE d
    ELSE LET mid == (lo + hi) \div 2
             a1  == XMulF(n, P, c, acc, mid, hi)
         IN  IF a1 = a1 THEN XMulF(n, P, c, a1, lo, mid) ELSE a1
XMulBal(n, P, c) == IF BBits(n) = 0 THEN XInf(c) ELSE XMulF(n, P, c, XInf(c), 0, BBits(n))

(* the two source groups *)
E1(e) == [p |-> Pm(e), a |-> <<>>, b |-> BNorm(e.cb)]
E2(e) == [T |-> T2(e), k |-> 1, a |-> Zero2, b |-> <<BNorm(e.b20), BNorm(e.b21)>>]
G1(e) == Pt(BNorm(e.g1.x), BNorm(e.g1.y))
G2(e) == XPt(<<BNorm(e.g2.x0), BNorm(e.g2.x1)>>, <<BNorm(e.g2.y0), BNorm(e.g2.y1)>>)
PointP(pr) == IF pr.pinf = 1 THEN PInf ELSE Pt(BNorm(pr.px), BNorm(pr.py))
PointQ(e, pr) == IF pr.qinf = 1 THEN XInf(E2(e))
                 ELSE XPt(<<BNorm(pr.qx0), BNorm(pr.qx1)>>, <<BNorm(pr.qy0), BNorm(pr.qy1)>>)
(* scalar reduced into [0, r) *)
Red(e, k) == IModPos(BnI(k), Ord(e))
(* [k]G for a reduced scalar: k and r - k small are done by a few additions *)
MulG1(e, k) ==
    LET r == Ord(e)  c == E1(e) IN
    IF BLt(BSub(r, k), <<16>>) /\ k # <<>> THEN PNeg(PMulNat(BSub(r, k), G1(e), c), c)
    ELSE PMulNat(k, G1(e), c)
MulG2(e, k) ==
    LET r == Ord(e)  c == E2(e) IN
    IF BLt(BSub(r, k), <<16>>) /\ k # <<>> THEN XNeg(XMulBal(BSub(r, k), G2(e), c), c)
    ELSE XMulBal(k, G2(e), c)
InputsAreMultiples(e) ==
    /\ OnCurve(G1(e), E1(e)) /\ XOnCurve(G2(e), E2(e))
    /\ \A j \in 1..Len(e.pairs) :
          /\ PointP(e.pairs[j]) = MulG1(e, Red(e, e.pairs[j].a))
          /\ PointQ(e, e.pairs[j]) = MulG2(e, Red(e, e.pairs[j].b))

RECURSIVE SumAB(_, _)
SumAB(e, j) == IF j > Len(e.pairs) THEN <<>>
               ELSE BAddMod(BMulMod(Red(e, e.pairs[j].a), Red(e, e.pairs[j].b), Ord(e)), SumAB(e, j + 1), Ord(e))
IsGeneratorPair(e) == Len(e.pairs) = 1 /\ Red(e, e.pairs[1].a) = <<1>> /\ Red(e, e.pairs[1].b) = <<1>>

(* first event of a segment: the pairing of the generators *)
Reference(e) ==
    /\ e.op = "pair" /\ e.err = 0 /\ e.code = 0
    /\ IsGeneratorPair(e) /\ e.zm = 0
    /\ InputsAreMultiples(e)
    /\ Gt(e) # One12(e)                               \* non-degenerate
    /\ Pow12(e, Gt(e), Ord(e)) = One12(e)             \* order divides r
    /\ BNorm(e.usq1) = <<>>
(* every other event of the segment, given the reference value g0 *)
Bilinear(e, g0) ==
    /\ e.op = "pair" /\ e.err = 0 /\ e.code = 0
    /\ InputsAreMultiples(e)
    /\ Gt(e) = Pow12(e, g0, SumAB(e, 1))
(* the final exponentiation as a function of its own (pp_exp_k12 / pc_exp on arbitrary non-zero elements x, y of  *)
(* F_p12): the value does not depend on whether the result object is the operand, the map is multiplicative and   *)
(* its image has order dividing r (and is not trivial on a random element)                                        *)
F12(e, v) == TUnflat(T12(e), 3, NormAll(v, 1))
FinalExp(e) ==
    LET T == T12(e)
        X == F12(e, e.x)  Y == F12(e, e.y)  XY == F12(e, e.xy)
        C1 == F12(e, e.c1)  D1 == F12(e, e.d1)  E1x == F12(e, e.e1)
    IN  /\ e.op = "expo" /\ e.err = 0 /\ e.code = 0 /\ BNorm(e.usq1) = <<>>
        /\ F12(e, e.c2) = C1 /\ F12(e, e.c3) = C1                  \* in place = out of place; pc_exp = pp_exp_k12
        /\ TMul(T, 3, X, Y) = XY
        /\ TMul(T, 3, C1, D1) = E1x                                 \* multiplicative
        /\ C1 # One12(e) /\ Pow12(e, C1, Ord(e)) = One12(e)        \* image of order dividing r, not trivial
=============================================================================
