SPECIFICATION Spec
CONSTANTS
    B = 8
    LB = 1
    M = 256
    MaxLen = 40
    MaxChunks = 3
    BitsSet = {0, 255, 165, 90}
INVARIANTS TypeOK Absorbing Overflow Finalised ResultRight Idempotent InputAfterResult EmptyInput
CHECK_DEADLOCK FALSE
