------------------------------ MODULE MCEdwards ------------------------------
(***************************************************************************)
(* The definition itself is checked: for EVERY twisted Edwards curve       *)
(* a x^2 + y^2 = 1 + d x^2 y^2 over F_p, p in Primes (all a, d with        *)
(* a d (a - d) # 0; one state per curve):                                  *)
(*  - when the law is complete (a a square, d a non-square) the curve      *)
(*    points with lib/Edwards form an abelian group: the unified law never *)
(*    hits a vanishing denominator, closure, identity (0, 1), inverse      *)
(*    (-x, y), commutativity, associativity on ALL triples, EDbl = P + P,  *)
(*    [k]P = repeated addition, negative scalars, Lagrange, Hasse bound,   *)
(*    (0, -1) has order two, the points (x, 0) with a x^2 = 1 have order   *)
(*    four, the group order is divisible by four;                          *)
(*  - compression: for every y, EHasX(y) iff some curve point has that y,  *)
(*    the (at most two) such points are P and -P, EXSquared = x^2;         *)
(*  - for every other curve: wherever the unified law is defined (both     *)
(*    denominators non-zero) the result is a curve point and the law is    *)
(*    commutative there; EUndef is reported otherwise.                     *)
(***************************************************************************)
EXTENDS Edwards, FiniteSets, TLC
CONSTANT Primes
VARIABLES p, a, d

Init == /\ p \in Primes /\ a \in 1..(p - 1) /\ d \in 1..(p - 1) /\ a # d
Next == UNCHANGED <<p, a, d>>
Spec == Init /\ [][Next]_<<p, a, d>>

C == [p |-> BFromNat(p), a |-> BFromNat(a), d |-> BFromNat(d)]
Fp == {BFromNat(x) : x \in 0..(p - 1)}
Plane == {EPt(x, y) : x \in Fp, y \in Fp}
Group == {P \in Plane : EOnCurve(P, C)}

IsSq(v) == \E x \in 1..(p - 1) : (x * x) % p = v
CompleteNative == IsSq(a) /\ ~IsSq(d)

RECURSIVE Rep(_, _)
Rep(n, P) == IF n = 0 THEN EO ELSE EAdd(Rep(n - 1, P), P, C)

GroupLaw ==
    LET G == Group
        N == Cardinality(G)
    IN
    /\ EO \in G /\ EUndef \notin G
    /\ \A P \in G : /\ EAdd(P, EO, C) = P /\ EAdd(EO, P, C) = P
                    /\ ENeg(P, C) \in G /\ EAdd(P, ENeg(P, C), C) = EO
                    /\ EDbl(P, C) = EAdd(P, P, C)
                    /\ ESub(P, P, C) = EO
                    /\ \A n \in {0, 1, 2, 3, 5, 8} : EMulNat(BFromNat(n), P, C) = Rep(n, P)
                    /\ EMul(TRUE, <<3>>, P, C) = ENeg(Rep(3, P), C)
                    /\ EMul(FALSE, <<3>>, P, C) = Rep(3, P)
                    /\ EMulNat(BFromNat(N), P, C) = EO                        \* Lagrange
    /\ \A P, Q \in G : /\ EAdd(P, Q, C) \in G /\ EAdd(P, Q, C) = EAdd(Q, P, C)
                       /\ ESub(P, Q, C) = EAdd(P, ENeg(Q, C), C)
    /\ \A P, Q, R \in G : EAdd(EAdd(P, Q, C), R, C) = EAdd(P, EAdd(Q, R, C), C)
    /\ (N - (p + 1)) * (N - (p + 1)) <= 4 * p                                 \* Hasse
    /\ N % 4 = 0
    /\ EOrder2(C) \in G /\ EHasOrder2Pow(EOrder2(C), 2, C)
    /\ \A x \in Fp : EIsOrder4X(x, C) => (EPt(x, <<>>) \in G /\ EHasOrder2Pow(EPt(x, <<>>), 4, C))
    /\ \E x \in Fp : EIsOrder4X(x, C)
    /\ \A P \in G : \A n \in {2, 4, 8} :
          EHasOrder2Pow(P, n, C) <=> (Rep(n, P) = EO /\ Rep(n \div 2, P) # EO)

Compression ==
    LET G == Group IN
    /\ \A y \in Fp : /\ EHasX(y, C) <=> (\E P \in G : P.y = y)
                     /\ \A P \in G : P.y = y => /\ EIsUpkOf(P, y, C)
                                                /\ EXSquared(y, C) = FSqr(P.x, C.p)
                                                /\ {Q \in G : Q.y = y} = {P, ENeg(P, C)}
    /\ \A P \in Plane : (\E y \in Fp : EIsUpkOf(P, y, C)) <=> P \in G
    /\ \A P \in G : /\ EBinPacked(P, 1, 1) = <<3>> \o P.y \o (IF P.y = <<>> THEN <<0>> ELSE <<>>)
                    /\ EBinPlain(P, 1)[1] = 4 /\ Len(EBinPlain(P, 1)) = 3

Partial ==
    LET G == Group IN
    \A P, Q \in G :
        LET S == EAdd(P, Q, C)
            t == (d * BToNat(P.x) * BToNat(Q.x) * BToNat(P.y) * BToNat(Q.y)) % p
        IN  /\ (S = EUndef) <=> ((1 + t) % p = 0 \/ (p + 1 - t) % p = 0)
            /\ S # EUndef => (S \in G /\ S = EAdd(Q, P, C))

Inv == /\ EValidCurve(C)
       /\ EComplete(C) <=> CompleteNative
       /\ IF CompleteNative THEN GroupLaw /\ Compression ELSE Partial
=============================================================================
