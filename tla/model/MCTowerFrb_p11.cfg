CONSTANTS p = 11
 nq = 1
 qnr2 = 4
 cnr = 0
SPECIFICATION Spec
INVARIANT Check
CHECK_DEADLOCK FALSE
