------------------------------- MODULE CodecB -------------------------------
(***************************************************************************)
(* The external representations of binary-field elements and binary-curve  *)
(* points (C07, second part) as TLA+ operators on BYTE STRINGS (wire       *)
(* order), in the style of model/Codec:                                    *)
(*   field elems   exactly fb = ceil(m/8) big-endian bytes of the          *)
(*                 polynomial (bit i = coefficient of x^i), degree < m;    *)
(*                 text form = the numeral of that integer (model/Codec:   *)
(*                 positional notation) in a radix that is a power of two  *)
(*                 2, 4, ..., 64 - one character is a group of log2(radix) *)
(*                 coefficients                                            *)
(*   curve points  y^2 + xy = x^3 + a x^2 + b over GF(2^m) (lib/BinCurve): *)
(*                 0 (1 byte) = identity | 2+s x (fb+1) | 4 x y (2fb+1)     *)
(*                 s = bit 0 of y/x (relic_eb_pck.c: "y3 = b(y1/x1)"; the  *)
(*                 two points over x # 0 are (x, xz), (x, x(z+1)) with     *)
(*                 z^2 + z = x + a + b/x^2, so bit 0 of z = y/x separates   *)
(*                 them); the point of order two (0, sqrt b) is the only   *)
(*                 point over x = 0: its bit is 0.                         *)
(* Values are the abstract ones of lib/GF2m, lib/BinCurve.  MCCodecB       *)
(* checks the definitions exhaustively over small fields (round trips,     *)
(* canonicity, the decoder accepts exactly the image of the encoder, the   *)
(* trace criterion for "x has a point"); Codec2Spec binds the C functions. *)
(***************************************************************************)
EXTENDS Codec, BinCurve

(* ------------------------------------------------------- field elements *)
ValidRadixB(r) == r \in {2, 4, 8, 16, 32, 64}
BfBytes(m) == (m + 7) \div 8
BfEncBin(v, fb) == BToBE(v, fb)
BfDecBin(s, m, fb) == IF Len(s) # fb THEN Bad
                      ELSE LET v == BFromBE(s) IN IF BBits(v) <= m THEN Ok(v) ELSE Bad
(* text: the numeral of the polynomial read as an integer; a sign has no   *)
(* meaning in characteristic two (-a = a): the value is the magnitude      *)
BfDecStr(s, radix) == IF ~ValidRadixB(radix) THEN Bad ELSE Ok(DecStr(s, radix).v.mag)

(* ---------------------------------------------------------------- points *)
(* x is the abscissa of a point: x = 0 (the point of order two) or         *)
(* z^2 + z = (x^3 + a x^2 + b)/x^2 is solvable, i.e. its trace is 0        *)
BcW(x, c) == GMul(ERhs(x, c), GInv(GSqr(x, c.f), c.f), c.f)
BcHasPointWithX(x, c) == x = <<>> \/ GTrace(BcW(x, c), c.f) = 0
(* the bit of the packed form *)
BcBit(P, c) == IF P.x = <<>> THEN 0 ELSE BBit(GMul(P.y, GInv(P.x, c.f), c.f), 0)

BcEncSize(P, pack, fb) == IF P.inf THEN 1 ELSE IF pack THEN fb + 1 ELSE 2 * fb + 1
BcEnc(P, pack, c, fb) ==
    IF P.inf THEN <<0>>
    ELSE IF pack THEN <<2 + BcBit(P, c)>> \o BToBE(P.x, fb)
    ELSE <<4>> \o BToBE(P.x, fb) \o BToBE(P.y, fb)

(* which strings denote a point: "inf", "cmp", "unc", or "bad" (must be refused) *)
BcDecClass(s, c, fb) ==
    LET m == GDeg(c.f) IN
    IF Len(s) = 1 THEN (IF s[1] = 0 THEN "inf" ELSE "bad")
    ELSE IF Len(s) = fb + 1 THEN
        LET x == BFromBE(SubSeq(s, 2, fb + 1)) IN
        IF s[1] \notin {2, 3} \/ BBits(x) > m THEN "bad"
        ELSE IF x = <<>> THEN (IF s[1] = 2 THEN "cmp" ELSE "bad")      \* the only point over 0 has bit 0
        ELSE IF BcHasPointWithX(x, c) THEN "cmp" ELSE "bad"
    ELSE IF Len(s) = 2 * fb + 1 THEN
        LET x == BFromBE(SubSeq(s, 2, fb + 1))
            y == BFromBE(SubSeq(s, fb + 2, 2 * fb + 1))
        IN  IF s[1] = 4 /\ BBits(x) <= m /\ BBits(y) <= m /\ EOnCurve(EPt(x, y), c) THEN "unc" ELSE "bad"
    ELSE "bad"
(* Q is THE point the string s (of class cl # "bad") denotes.  The compressed  *)
(* form is characterised, not computed: abscissa, curve equation and bit       *)
(* determine the ordinate uniquely (MCCodecB checks this).                     *)
BcIsDec(s, cl, Q, c, fb) ==
    IF cl = "inf" THEN Q.inf
    ELSE /\ ~Q.inf /\ EOnCurve(Q, c)
         /\ Q.x = BFromBE(SubSeq(s, 2, fb + 1))
         /\ IF cl = "unc" THEN Q.y = BFromBE(SubSeq(s, fb + 2, 2 * fb + 1))
            ELSE BcBit(Q, c) = s[1] - 2
(* eb_pck / eb_upk on abstract values: the packed object is <<x, bit>>; unpacking is characterised *)
BcIsUpk(x, bit, Q, c) == ~Q.inf /\ EOnCurve(Q, c) /\ Q.x = x /\ BcBit(Q, c) = bit
BcUpkExists(x, bit, c) == IF x = <<>> THEN bit = 0 ELSE BcHasPointWithX(x, c)
=============================================================================
