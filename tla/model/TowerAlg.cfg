CONSTANTS p = 7
 nq = 1
 qnr2 = 2
 big = FALSE
 phases = {"quad", "sextic", "dodecic", "cyc"}
SPECIFICATION Spec
INVARIANT Check
CHECK_DEADLOCK FALSE
