CONSTANTS p = 7
 nq = 1
SPECIFICATION Spec
INVARIANT Check
CHECK_DEADLOCK FALSE
