SPECIFICATION Spec
CONSTANTS
    R = 5
    Protocols = {"pdpub", "lvpub", "pbpsi"}
    BlindSet = {0}
    SetSize = 2
INVARIANTS Sound Complete Detects PsiExact
CHECK_DEADLOCK FALSE
