------------------------------ MODULE CodecSpec ------------------------------
(***************************************************************************)
(* C07 at the level of one public call: what each reader / writer of RELIC *)
(* must return for the recorded input, judged with the definitions of      *)
(* model/Codec (the same operators MCCodec checks exhaustively).           *)
(* Events come from harness/drv_codec.c:                                   *)
(*   eb, ev, em   the numbers of ERR_NO_BUFFER, ERR_NO_VALID, ERR_MAX      *)
(*                (em = an error that was caught and re-thrown inside the  *)
(*                library: its number is not propagated)                   *)
(*   in / out     byte strings in wire order; len = buffer length given    *)
(*   g            1 iff the guard bytes before and after the output buffer *)
(*                survived; re / rerr = re-encoding of a decoded object in *)
(*                the same format and length                               *)
(*   objects      raw projections (vh.h): bn [s,u,d], fp digits, points    *)
(* Direction of the verdicts (property text): an invalid encoding MUST be  *)
(* rejected (err # 0 and the sticky code set); a valid canonical encoding  *)
(* MUST be accepted with exactly the value Codec defines; writers produce  *)
(* Enc(value) in the first `advertised size` bytes, report a too short     *)
(* buffer and never write outside the buffer.                              *)
(***************************************************************************)
EXTENDS Codec, FpRep

Has(e, k) == k \in DOMAIN e
Clean(e)  == e.err = 0 /\ e.code = 0
Failed(e) == e.err # 0 /\ e.code = 1
BufErr(e) == Failed(e) /\ e.err \in {e.eb, e.em}

(* ---- bn objects (as in BnSpec) *)
BVal(o) == I(o.s = 1, o.d)
BTopNonZero(o, w) == \E j \in (Len(o.d) - w + 1)..Len(o.d) : o.d[j] # 0
BNormal(o, w) == /\ Len(o.d) = o.u * w
                 /\ IF BNorm(o.d) = <<>> THEN o.s = 0 /\ o.u <= 1 ELSE BTopNonZero(o, w)
IsBnVal(e, o, x) == BNormal(o, e.w) /\ IEq(BVal(o), x)
Prefix(s, n) == SubSeq(s, 1, n)

(* the part of a text buffer before the terminator *)
RECURSIVE BodyLen(_, _)
BodyLen(s, j) == IF j > Len(s) \/ s[j] = 0 THEN j - 1 ELSE BodyLen(s, j + 1)
Body(s) == SubSeq(s, 1, BodyLen(s, 1))
(* an error of a reader is admissible only when the operand cannot be guaranteed to fit the precision *)
TooLongBin(e, nbytes) == (nbytes + e.w - 1) \div e.w > e.digs
TooLongStr(e) == Len(e.in) * BitLen8(e.radix) > 8 * e.w * e.digs

(* writer of a numeral into a buffer of e.len bytes *)
StrWriter(e, x) ==
    IF ~ValidRadix(e.radix) THEN Failed(e) /\ e.g = 1
    ELSE LET z == SizeStr(x, e.radix) IN
         IF e.len < z THEN BufErr(e) /\ e.g = 1
         ELSE Clean(e) /\ e.g = 1 /\ Prefix(e.out, z) = Numeral(x, e.radix) \o <<0>>
StrSizer(e, x) ==
    IF ~ValidRadix(e.radix) THEN Failed(e)
    ELSE Clean(e) /\ e.size = SizeStr(x, e.radix)

BnCodec(e) ==
    CASE e.op = "bn_size_bin" -> Clean(e) /\ e.size = BnSizeBin(BVal(e.a).mag)
      [] e.op = "bn_write_bin" ->
            LET v == BVal(e.a).mag
                z == BnSizeBin(v)
            IN  /\ e.size = z /\ e.g = 1
                /\ IF e.len < z THEN BufErr(e) ELSE Clean(e) /\ e.out = BToBE(v, e.len)
      [] e.op = "bn_read_bin" ->
            IF e.err # 0 THEN Failed(e) /\ TooLongBin(e, Len(e.in))
            ELSE /\ Clean(e) /\ IsBnVal(e, e.c, I(FALSE, BnDecBin(e.in)))
                 /\ e.rerr = 0 /\ e.re = e.in /\ e.g = 1
      [] e.op = "bn_write_raw" ->
            LET v == BVal(e.a).mag
                z == BnSizeRaw(v, e.w)
            IN  /\ e.size = z /\ e.g = 1
                /\ IF e.len < z THEN BufErr(e) ELSE Clean(e) /\ e.out = BnEncRaw(v, e.len, e.w).v
      [] e.op = "bn_read_raw" ->
            IF e.err # 0 THEN Failed(e) /\ e.len > e.digs
            ELSE /\ Clean(e) /\ IsBnVal(e, e.c, I(FALSE, BnDecRaw(e.in)))
                 /\ (e.len > 0 => e.rerr = 0 /\ e.re = e.in /\ e.g = 1)
      [] e.op = "bn_size_str" -> StrSizer(e, BVal(e.a))
      [] e.op = "bn_write_str" -> StrWriter(e, BVal(e.a))
      [] e.op = "bn_read_str" ->
            \* a numeral (sign, digits of the radix, up to the terminator or the buffer end) MUST be read as
            \* its positional value; anything else is either refused or read as its longest numeral prefix
            IF ~ValidRadix(e.radix) THEN Failed(e)
            ELSE IF e.err # 0 THEN Failed(e) /\ (TooLongStr(e) \/ ~IsNumeral(Body(e.in), e.radix))
            ELSE /\ Clean(e) /\ IsBnVal(e, e.c, DecStr(e.in, e.radix).v)
                 /\ IsCanonNumeral(Body(e.in), e.radix) =>
                        (e.rerr = 0 /\ e.g = 1 /\ e.re = Body(e.in) \o <<0>>)
      [] OTHER -> FALSE

(* ---- field elements *)
IsFpVal(e, raw, v) == FCanon(e, raw) /\ FAbs(e, raw) = v
FpCodec(e) ==
    LET p == FPrime(e) IN
    CASE e.op = "fp_read_bin" ->
            LET d == FpDecBin(e.in, p, e.fb) IN
            IF ~d.ok THEN Failed(e)
            ELSE Clean(e) /\ IsFpVal(e, e.c, d.v) /\ e.rerr = 0 /\ e.re = e.in /\ e.g = 1
      [] e.op = "fp_write_bin" ->
            LET v == FAbs(e, e.a) IN
            /\ FCanon(e, e.a) /\ e.g = 1
            /\ IF e.len < e.fb THEN BufErr(e)
               ELSE IF e.len = e.fb THEN Clean(e) /\ e.out = FpEncBin(v, e.fb)
               ELSE BufErr(e) \/ (Clean(e) /\ Prefix(e.out, e.fb) = FpEncBin(v, e.fb))
      [] e.op = "fp_size_str" -> FCanon(e, e.a) /\ StrSizer(e, I(FALSE, FAbs(e, e.a)))
      [] e.op = "fp_write_str" -> FCanon(e, e.a) /\ StrWriter(e, I(FALSE, FAbs(e, e.a)))
      [] e.op = "fp_read_str" ->
            IF ~ValidRadix(e.radix) THEN Failed(e)
            ELSE IF e.err # 0 THEN Failed(e) /\ (TooLongStr(e) \/ ~IsNumeral(Body(e.in), e.radix))
            ELSE Clean(e) /\ IsFpVal(e, e.c, FpDecStr(e.in, e.radix, p).v)
      [] OTHER -> FALSE

(* ---- extension fields, uncompressed form: deg coefficients *)
IsCompressedLen(e) == (e.deg = 2 /\ Len(e.in) = e.fb + 1) \/ (e.deg = 12 /\ Len(e.in) = 8 * e.fb)
FpxCodec(e) ==
    LET p == FPrime(e) IN
    CASE e.op \in {"fp2_read_bin", "fp12_read_bin"} ->
            IF IsCompressedLen(e) THEN TRUE          \* compressed forms: not covered
            ELSE LET d == FpxDecBin(e.in, p, e.fb, e.deg) IN
                 IF ~d.ok THEN Failed(e)
                 ELSE /\ Clean(e) /\ Len(e.c) = e.deg
                      /\ \A i \in 1..e.deg : IsFpVal(e, e.c[i], d.v[i])
                      /\ e.rerr = 0 /\ e.re = e.in /\ e.g = 1
      [] e.op \in {"fp2_write_bin", "fp12_write_bin"} ->
            LET vs  == [i \in 1..e.deg |-> FAbs(e, e.a[i])]
                z   == e.deg * e.fb
                enc == FpxEncBin(vs, e.fb)
            IN  /\ \A i \in 1..e.deg : FCanon(e, e.a[i])
                /\ e.size = z /\ e.g = 1
                /\ IF e.len < z THEN BufErr(e)
                   ELSE IF e.len = z THEN Clean(e) /\ e.out = enc
                   ELSE BufErr(e) \/ (Clean(e) /\ Prefix(e.out, z) = enc)
      [] OTHER -> FALSE

(* ---- points *)
CurveOf(e) == [p |-> FPrime(e), a |-> FAbs(e, e.ca), b |-> FAbs(e, e.cb)]
SgOf(e) == IF e.pairf = 1 THEN SgHalf ELSE SgParity
IsPoint(e, R, Q) == PNormal(e, R) /\ PEq(PAbs(e, R), Q)
(* the compressed OBJECT of ep_pck / ep_upk: x, raw y in {0, 1}, z = 1, affine *)
IsPacked(e, R, x, bit) == /\ PCanon(e, R) /\ FAbs(e, R.x) = x /\ R.c = 1 /\ FAbs(e, R.z) = <<1>>
                          /\ BNorm(R.y) = (IF bit = 1 THEN <<1>> ELSE <<>>)

EpCodecSg(e, sg) ==
    LET c == CurveOf(e) IN
    CASE e.op = "ep_size_bin" ->
            LET Q == PAbs(e, e.P) IN
            OnCurve(Q, c) /\ Clean(e) /\ e.size = EncSize(Q, e.pack # 0, e.fb)
      [] e.op = "ep_write_bin" ->
            LET Q == PAbs(e, e.P)
                z == EncSize(Q, e.pack # 0, e.fb)
            IN  /\ OnCurve(Q, c) /\ PCanon(e, e.P)
                /\ e.size = z /\ e.g = 1
                /\ IF e.len < z THEN BufErr(e)
                   ELSE Clean(e) /\ Prefix(e.out, z) = EncPoint(Q, e.pack # 0, c, e.fb, sg)
      [] e.op = "ep_read_bin" ->
            LET d == DecPoint(e.in, c, e.fb, sg) IN
            IF ~d.ok THEN Failed(e)
            ELSE Clean(e) /\ IsPoint(e, e.R, d.v) /\ e.rerr = 0 /\ e.re = e.in /\ e.g = 1
      [] e.op = "ep_pck" ->
            LET Q == PAbs(e, e.P) IN
            /\ OnCurve(Q, c) /\ ~Q.inf /\ PNormal(e, e.P)
            /\ Clean(e) /\ IsPacked(e, e.R, Q.x, SignBit(Q.y, c.p, sg))
      [] e.op = "ep_upk" ->
            LET x == FAbs(e, e.P.x)
                d == Upk(x, e.bit, c, sg)
            IN  /\ FCanon(e, e.P.x) /\ Clean(e)
                /\ IF d.ok THEN e.ret = 1 /\ IsPoint(e, e.R, d.v)
                   ELSE IF ~HasPointWithX(x, c) THEN e.ret = 0
                   ELSE \* the only ordinate is 0 and the other one was asked for: no demand on ep_upk itself
                        e.ret = 0 \/ (e.ret = 1 /\ IsPoint(e, e.R, Pt(x, <<>>)))
      [] OTHER -> FALSE
EpCodec(e) == EpCodecSg(e, SgOf(e))

IsBnOp(op)  == op \in {"bn_size_bin", "bn_write_bin", "bn_read_bin", "bn_write_raw", "bn_read_raw",
                       "bn_size_str", "bn_write_str", "bn_read_str"}
IsFpOp(op)  == op \in {"fp_read_bin", "fp_write_bin", "fp_size_str", "fp_write_str", "fp_read_str"}
IsFpxOp(op) == op \in {"fp2_read_bin", "fp2_write_bin", "fp12_read_bin", "fp12_write_bin"}
IsEpOp(op)  == op \in {"ep_size_bin", "ep_write_bin", "ep_read_bin", "ep_pck", "ep_upk"}

CodecAccept(e) ==
    IF e.op \in {"curve_probe", "restart"} THEN TRUE
    ELSE IF Has(e, "crash") THEN FALSE
    ELSE IF IsBnOp(e.op) THEN BnCodec(e)
    ELSE IF IsFpOp(e.op) THEN FpCodec(e)
    ELSE IF IsFpxOp(e.op) THEN FpxCodec(e)
    ELSE IF IsEpOp(e.op) THEN EpCodec(e)
    ELSE FALSE

(***************************************************************************)
(* Known findings (keys take effect only when listed in                    *)
(* /verif/known_findings.json).  Each is keyed on op + input class + the   *)
(* exact wrong outcome.                                                    *)
(*  C07-ep-compress-montgomery-parity: on ordinary (not pairing-friendly)  *)
(*    curves in a Montgomery-representation build the compression bit is   *)
(*    the parity of the INTERNAL representation y*R mod p instead of the   *)
(*    parity of y: the event is explained exactly by the sign function     *)
(*    SgMont(R mod p) and not by the specified one.                        *)
(*  C07-ep-read-bin-two-torsion-sign: ep_read_bin accepts the compressed   *)
(*    string whose bit asks for the non-existing second ordinate over an x *)
(*    with x^3+ax+b = 0 and returns (x, 0), which re-encodes differently.  *)
(***************************************************************************)
UsesSign(e) == \/ e.op \in {"ep_pck", "ep_upk"}
               \/ (e.op = "ep_write_bin" /\ e.pack # 0)
               \/ (e.op = "ep_read_bin" /\ Len(e.in) = e.fb + 1)
TwoTorsionCase(e, sg) ==
    /\ e.op = "ep_read_bin" /\ Len(e.in) = e.fb + 1 /\ e.in[1] \in {2, 3}
    /\ LET c == CurveOf(e)
           x == BFromBE(SubSeq(e.in, 2, e.fb + 1))
       IN  /\ BLt(x, c.p) /\ Rhs(x, c) = <<>> /\ e.in[1] - 2 # SignBit(<<>>, c.p, sg)
           /\ Clean(e) /\ IsPoint(e, e.R, Pt(x, <<>>))

CodecKnownKey(e) ==
    IF ~IsEpOp(e.op) \/ Has(e, "crash") THEN ""
    ELSE IF TwoTorsionCase(e, SgOf(e)) THEN "C07-ep-read-bin-two-torsion-sign"
    ELSE IF UsesSign(e) /\ e.mont = 1 /\ e.pairf = 0 THEN
        LET sgm == SgMont(BMod(FR(e), FPrime(e))) IN
        IF EpCodecSg(e, sgm) THEN "C07-ep-compress-montgomery-parity" ELSE ""
    ELSE ""
=============================================================================
