------------------------------ MODULE CodecSpec ------------------------------
(***************************************************************************)
(* C07 at the level of one public call: what each reader / writer of RELIC *)
(* must return for the recorded input, judged with the definitions of      *)
(* model/Codec (the same operators MCCodec checks exhaustively).           *)
(* Events come from harness/drv_codec.c:                                   *)
(*   eb, ev, em   the numbers of ERR_NO_BUFFER, ERR_NO_VALID, ERR_MAX      *)
(*                (em = an error that was caught and re-thrown inside the  *)
(*                library: its number is not propagated)                   *)
(*   in / out     byte strings in wire order; len = buffer length given    *)
(*   g            1 iff the guard bytes before and after the output buffer *)
(*                survived; re / rerr = re-encoding of a decoded object in *)
(*                the same format and length                               *)
(*   objects      raw projections (vh.h): bn [s,u,d], fp digits, points    *)
(* Direction of the verdicts (property text): an invalid encoding MUST be  *)
(* rejected (err # 0 and the sticky code set); a valid canonical encoding  *)
(* MUST be accepted with exactly the value Codec defines; writers produce  *)
(* Enc(value) in the first `advertised size` bytes, report a too short     *)
(* buffer and never write outside the buffer.                              *)
(***************************************************************************)
EXTENDS Codec, FpRep

Has(e, k) == k \in DOMAIN e
Clean(e)  == e.err = 0 /\ e.code = 0
Failed(e) == e.err # 0 /\ e.code = 1
BufErr(e) == Failed(e) /\ e.err \in {e.eb, e.em}

(* ---- bn objects (as in BnSpec) *)
BVal(o) == I(o.s = 1, o.d)
BTopNonZero(o, w) == \E j \in (Len(o.d) - w + 1)..Len(o.d) : o.d[j] # 0
BNormal(o, w) == /\ Len(o.d) = o.u * w
                 /\ IF BNorm(o.d) = <<>> THEN o.s = 0 /\ o.u <= 1 ELSE BTopNonZero(o, w)
IsBnVal(e, o, x) == BNormal(o, e.w) /\ IEq(BVal(o), x)
Prefix(s, n) == SubSeq(s, 1, n)

(* the part of a text buffer before the terminator *)
RECURSIVE BodyLen(_, _)
BodyLen(s, j) == IF j > Len(s) \/ s[j] = 0 THEN j - 1 ELSE BodyLen(s, j + 1)
Body(s) == SubSeq(s, 1, BodyLen(s, 1))
(* an error of a reader is admissible only when the operand cannot be guaranteed to fit the precision *)
TooLongBin(e, nbytes) == (nbytes + e.w - 1) \div e.w > e.digs
TooLongStr(e) == Len(e.in) * BitLen8(e.radix) > 8 * e.w * e.digs

(* writer of a numeral into a buffer of e.len bytes *)
StrWriter(e, x) ==
    IF ~ValidRadix(e.radix) THEN Failed(e) /\ e.g = 1
    ELSE LET z == SizeStr(x, e.radix) IN
         IF e.len < z THEN BufErr(e) /\ e.g = 1
         ELSE Clean(e) /\ e.g = 1 /\ Prefix(e.out, z) = Numeral(x, e.radix) \o <<0>>
StrSizer(e, x) ==
    IF ~ValidRadix(e.radix) THEN Failed(e)
    ELSE Clean(e) /\ e.size = SizeStr(x, e.radix)

BnCodec(e) ==
    CASE e.op = "bn_size_bin" -> Clean(e) /\ e.size = BnSizeBin(BVal(e.a).mag)
      [] e.op = "bn_write_bin" ->
            LET v == BVal(e.a).mag
                z == BnSizeBin(v)
            IN  /\ e.size = z /\ e.g = 1
                /\ IF e.len < z THEN BufErr(e) ELSE Clean(e) /\ e.out = BToBE(v, e.len)
      [] e.op = "bn_read_bin" ->
            IF e.err # 0 THEN Failed(e) /\ TooLongBin(e, Len(e.in))
            ELSE /\ Clean(e) /\ IsBnVal(e, e.c, I(FALSE, BnDecBin(e.in)))
                 /\ e.rerr = 0 /\ e.re = e.in /\ e.g = 1
      [] e.op = "bn_write_raw" ->
            LET v == BVal(e.a).mag
                z == BnSizeRaw(v, e.w)
            IN  /\ e.size = z /\ e.g = 1
                /\ IF e.len < z THEN BufErr(e) ELSE Clean(e) /\ e.out = BnEncRaw(v, e.len, e.w).v
      [] e.op = "bn_read_raw" ->
            IF e.err # 0 THEN Failed(e) /\ e.len > e.digs
            ELSE /\ Clean(e) /\ IsBnVal(e, e.c, I(FALSE, BnDecRaw(e.in)))
                 /\ (e.len > 0 => e.rerr = 0 /\ e.re = e.in /\ e.g = 1)
      [] e.op = "bn_size_str" -> StrSizer(e, BVal(e.a))
      [] e.op = "bn_write_str" -> StrWriter(e, BVal(e.a))
      [] e.op = "bn_read_str" ->
            \* a numeral (sign, digits of the radix, up to the terminator or the buffer end) MUST be read as
            \* its positional value; anything else is either refused or read as its longest numeral prefix
            IF ~ValidRadix(e.radix) THEN Failed(e)
            ELSE IF e.err # 0 THEN Failed(e) /\ (TooLongStr(e) \/ ~IsNumeral(Body(e.in), e.radix))
            ELSE /\ Clean(e) /\ IsBnVal(e, e.c, DecStr(e.in, e.radix).v)
                 /\ IsCanonNumeral(Body(e.in), e.radix) =>
                        (e.rerr = 0 /\ e.g = 1 /\ e.re = Body(e.in) \o <<0>>)
      [] OTHER -> FALSE

(* ---- field elements *)
IsFpVal(e, raw, v) == FCanon(e, raw) /\ FAbs(e, raw) = v
FpCodec(e) ==
    LET p == FPrime(e) IN
    CASE e.op = "fp_read_bin" ->
            LET d == FpDecBin(e.in, p, e.fb) IN
            IF ~d.ok THEN Failed(e)
            ELSE Clean(e) /\ IsFpVal(e, e.c, d.v) /\ e.rerr = 0 /\ e.re = e.in /\ e.g = 1
      [] e.op = "fp_write_bin" ->
            LET v == FAbs(e, e.a) IN
            /\ FCanon(e, e.a) /\ e.g = 1
            /\ IF e.len < e.fb THEN BufErr(e)
               ELSE IF e.len = e.fb THEN Clean(e) /\ e.out = FpEncBin(v, e.fb)
               ELSE BufErr(e) \/ (Clean(e) /\ Prefix(e.out, e.fb) = FpEncBin(v, e.fb))
      [] e.op = "fp_size_str" -> FCanon(e, e.a) /\ StrSizer(e, I(FALSE, FAbs(e, e.a)))
      [] e.op = "fp_write_str" -> FCanon(e, e.a) /\ StrWriter(e, I(FALSE, FAbs(e, e.a)))
      [] e.op = "fp_read_str" ->
            IF ~ValidRadix(e.radix) THEN Failed(e)
            ELSE IF e.err # 0 THEN Failed(e) /\ (TooLongStr(e) \/ ~IsNumeral(Body(e.in), e.radix))
            ELSE Clean(e) /\ IsFpVal(e, e.c, FpDecStr(e.in, e.radix, p).v)
      [] OTHER -> FALSE

(* The bit that selects the root in a packed form is a PARAMETER of the format (C07 asks for a   *)
(* unique canonical string that round-trips, not for a particular parity convention): it is what *)
(* the library's representation makes it.  Where the code converts the coordinate to an integer   *)
(* first (pairing-friendly branch of ep_pck/ep_upk) it is the IETF sign y > (p-1)/2; elsewhere    *)
(* (ep non-pairing branch, fp2_pck, ed_pck) it is bit 0 of the STORED digits of the reduced       *)
(* element, i.e. of y*R mod p in a Montgomery build (mont = 1) and of y itself otherwise.         *)
RawSg(e) == IF e.mont = 1 THEN SgMont(BMod(FR(e), FPrime(e))) ELSE SgParity

(* ---- F_p^2 elements, plain and packed (unitary) form.  v = a VARIANT of the reader:    *)
(* the specification is StrictV(e); the other variants only key known findings:           *)
(*   sg       sign function: bit 0 of the stored representation of a1 (see RawSg)          *)
(*   anybyte  a sign byte other than 0/1 is read as 0                                      *)
(*   nofail   "no a1 with the requested sign" is not reported: the object is left as       *)
(*            (a0, raw bit)                                                                *)
(*   qm1      the ordinate is derived from a1^2 = 1 - a0^2 although i^2 = q # -1           *)
(*   zsign    a1 = 0 is returned although the sign byte asks for the other root            *)
QnrOf(e) == IF e.qnr < 0 THEN BSub(FPrime(e), BFromNat(0 - e.qnr)) ELSE BFromNat(e.qnr)
F2COf(e) == [p |-> FPrime(e), q |-> QnrOf(e)]
StrictV(e) == [sg |-> RawSg(e), anybyte |-> FALSE, nofail |-> FALSE, qm1 |-> FALSE, zsign |-> FALSE]
IsStrictButSg(v) == ~v.anybyte /\ ~v.nofail /\ ~v.qm1 /\ ~v.zsign

Fp2ReadPacked(e, v) ==
    LET fc   == F2COf(e)
        p    == fc.p
        a0   == BFromBE(SubSeq(e.in, 1, e.fb))
        byte == e.in[e.fb + 1]
        bit  == IF byte = 1 THEN 1 ELSE 0
        w    == IF v.qm1 THEN FSub(<<1>>, FSqr(a0, p), p) ELSE Fp2PackedRhs(a0, fc)
        sq   == FIsSquare(w, p)
        r    == FSqrt(w, p)
        a1   == IF SignBit(r, p, v.sg) = bit THEN r ELSE FNeg(r, p)
        has  == sq /\ SignBit(a1, p, v.sg) = bit            \* an a1 with the requested sign exists
    IN  IF ~BLt(a0, p) \/ (byte \notin {0, 1} /\ ~v.anybyte) THEN Failed(e)
        ELSE IF has \/ (sq /\ v.zsign) THEN
            /\ Clean(e) /\ IsFpVal(e, e.c[1], a0) /\ IsFpVal(e, e.c[2], a1)
            /\ IsStrictButSg(v) => (e.rerr = 0 /\ e.re = e.in /\ e.g = 1)
        ELSE IF v.nofail THEN
            /\ Clean(e) /\ IsFpVal(e, e.c[1], a0) /\ Len(e.c[2]) = e.w * e.fd
            /\ BNorm(e.c[2]) = (IF bit = 1 THEN <<1>> ELSE <<>>)
        ELSE Failed(e)

Fp2CodecV(e, v) ==
    LET fc == F2COf(e) IN
    CASE e.op = "fp2_read_bin" ->
            IF Len(e.in) = e.fb + 1 /\ e.fb > 1 THEN Fp2ReadPacked(e, v)
            ELSE LET d == FpxDecBin(e.in, fc.p, e.fb, 2) IN
                 IF ~d.ok THEN Failed(e)
                 ELSE /\ Clean(e) /\ Len(e.c) = 2
                      /\ \A i \in 1..2 : IsFpVal(e, e.c[i], d.v[i])
                      /\ e.rerr = 0 /\ e.re = e.in /\ e.g = 1
      [] e.op = "fp2_write_bin" ->
            LET a   == <<FAbs(e, e.a[1]), FAbs(e, e.a[2])>>
                pk  == e.pack # 0 /\ e.fb > 1
                z   == Fp2EncSize(a, pk, fc, e.fb)
                enc == Fp2Enc(a, pk, fc, e.fb, v.sg)
            IN  /\ FCanon(e, e.a[1]) /\ FCanon(e, e.a[2])
                /\ e.size = z /\ e.g = 1
                /\ IF e.len < z THEN BufErr(e)
                   ELSE IF e.len = z THEN Clean(e) /\ e.out = enc
                   ELSE BufErr(e) \/ (Clean(e) /\ Prefix(e.out, z) = enc)
      [] OTHER -> FALSE

(* ---- extension fields, uncompressed form: deg coefficients *)
IsCompressedLen(e) == e.deg = 12 /\ Len(e.in) = 8 * e.fb
FpxCodec(e) ==
    LET p == FPrime(e) IN
    CASE e.op \in {"fp2_read_bin", "fp12_read_bin"} ->
            IF IsCompressedLen(e) THEN TRUE          \* compressed forms: not covered
            ELSE LET d == FpxDecBin(e.in, p, e.fb, e.deg) IN
                 IF ~d.ok THEN Failed(e)
                 ELSE /\ Clean(e) /\ Len(e.c) = e.deg
                      /\ \A i \in 1..e.deg : IsFpVal(e, e.c[i], d.v[i])
                      /\ e.rerr = 0 /\ e.re = e.in /\ e.g = 1
      [] e.op \in {"fp2_write_bin", "fp12_write_bin"} ->
            LET vs  == [i \in 1..e.deg |-> FAbs(e, e.a[i])]
                z   == e.deg * e.fb
                enc == FpxEncBin(vs, e.fb)
            IN  /\ \A i \in 1..e.deg : FCanon(e, e.a[i])
                /\ e.size = z /\ e.g = 1
                /\ IF e.len < z THEN BufErr(e)
                   ELSE IF e.len = z THEN Clean(e) /\ e.out = enc
                   ELSE BufErr(e) \/ (Clean(e) /\ Prefix(e.out, z) = enc)
      [] OTHER -> FALSE

(* ---- points *)
CurveOf(e) == [p |-> FPrime(e), a |-> FAbs(e, e.ca), b |-> FAbs(e, e.cb)]
SgOf(e)  == IF e.pairf = 1 THEN SgHalf ELSE RawSg(e)
(* a decoded point: reduced coordinates, the right abstract value (any coordinate system) *)
IsPoint(e, R, Q) == PCanon(e, R) /\ PEq(PAbs(e, R), Q)
(* the compressed OBJECT of ep_pck / ep_upk: x, raw y in {0, 1}, z = 1, affine *)
IsPacked(e, R, x, bit) == /\ PCanon(e, R) /\ FAbs(e, R.x) = x /\ R.c = 1 /\ FAbs(e, R.z) = <<1>>
                          /\ BNorm(R.y) = (IF bit = 1 THEN <<1>> ELSE <<>>)

EpCodecSg(e, sg) ==
    LET c == CurveOf(e) IN
    CASE e.op = "ep_size_bin" ->
            LET Q == PAbs(e, e.P) IN
            OnCurve(Q, c) /\ Clean(e) /\ e.size = EncSize(Q, e.pack # 0, e.fb)
      [] e.op = "ep_write_bin" ->
            LET Q == PAbs(e, e.P)
                z == EncSize(Q, e.pack # 0, e.fb)
            IN  /\ OnCurve(Q, c) /\ PCanon(e, e.P)
                /\ e.size = z /\ e.g = 1
                /\ IF e.len < z THEN BufErr(e)
                   ELSE Clean(e) /\ Prefix(e.out, z) = EncPoint(Q, e.pack # 0, c, e.fb, sg)
      [] e.op = "ep_read_bin" ->
            LET d == DecPoint(e.in, c, e.fb, sg) IN
            IF ~d.ok THEN Failed(e)
            ELSE Clean(e) /\ IsPoint(e, e.R, d.v) /\ e.rerr = 0 /\ e.re = e.in /\ e.g = 1
      [] e.op = "ep_pck" ->
            LET Q == PAbs(e, e.P) IN
            /\ OnCurve(Q, c) /\ ~Q.inf /\ PNormal(e, e.P)
            /\ Clean(e) /\ IsPacked(e, e.R, Q.x, SignBit(Q.y, c.p, sg))
      [] e.op = "ep_upk" ->
            LET x == FAbs(e, e.P.x)
                d == Upk(x, e.bit, c, sg)
            IN  /\ FCanon(e, e.P.x) /\ Clean(e)
                /\ IF d.ok THEN e.ret = 1 /\ IsPoint(e, e.R, d.v)
                   ELSE IF ~HasPointWithX(x, c) THEN e.ret = 0
                   ELSE \* the only ordinate is 0 and the other one was asked for: no demand on ep_upk itself
                        e.ret = 0 \/ (e.ret = 1 /\ IsPoint(e, e.R, Pt(x, <<>>)))
      [] OTHER -> FALSE
EpCodec(e) == EpCodecSg(e, SgOf(e))

(* ---- points over F_p^2 (G2): raw fp2 = <<raw0, raw1>>, qnr = the small integer i^2 *)
A2(e, r2) == <<FAbs(e, r2[1]), FAbs(e, r2[2])>>
Canon2(e, r2) == FCanon(e, r2[1]) /\ FCanon(e, r2[2])
Curve2Of(e) == [p |-> FPrime(e), q |-> QnrOf(e), a |-> A2(e, e.a2), b |-> A2(e, e.b2)]
PInf2 == [inf |-> TRUE, x |-> F2Zero, y |-> F2Zero]
P2Abs(e, P) ==
    LET c == Curve2Of(e)
        z == A2(e, P.z)
        x == A2(e, P.x)
        y == A2(e, P.y)
    IN  IF z = F2Zero THEN PInf2
        ELSE IF P.c = 1 THEN [inf |-> FALSE, x |-> x, y |-> y]
        ELSE LET zi  == F2Inv(z, c)
                 zi2 == F2Sqr(zi, c)
             IN  IF P.c = 2 THEN [inf |-> FALSE, x |-> F2Mul(x, zi, c), y |-> F2Mul(y, zi, c)]
                 ELSE [inf |-> FALSE, x |-> F2Mul(x, zi2, c), y |-> F2Mul(y, F2Mul(zi2, zi, c), c)]
P2Canon(e, P)  == Canon2(e, P.x) /\ Canon2(e, P.y) /\ Canon2(e, P.z)
P2Normal(e, P) == P2Canon(e, P) /\ (A2(e, P.z) = F2Zero \/ (A2(e, P.z) = <<<<1>>, <<>>>> /\ P.c = 1))

Ep2CodecSk(e, sk) ==
    LET c == Curve2Of(e) IN
    CASE e.op = "ep2_size_bin" ->
            LET Q == P2Abs(e, e.P) IN
            OnCurve2(Q, c) /\ Clean(e) /\ e.size = EncSize2(Q, e.pack # 0, e.fb)
      [] e.op = "ep2_write_bin" ->
            LET Q == P2Abs(e, e.P)
                z == EncSize2(Q, e.pack # 0, e.fb)
            IN  /\ OnCurve2(Q, c) /\ P2Canon(e, e.P)
                /\ e.size = z /\ e.g = 1
                /\ IF e.len < z THEN BufErr(e)
                   ELSE Clean(e) /\ Prefix(e.out, z) = EncPoint2(Q, e.pack # 0, c, e.fb, sk)
      [] e.op = "ep2_read_bin" ->
            LET cl == Dec2Class(e.in, c, e.fb) IN
            IF cl = "bad" THEN Failed(e)
            ELSE LET Q == P2Abs(e, e.R) IN
                 /\ Clean(e) /\ P2Canon(e, e.R) /\ IsDecPoint2(e.in, cl, Q, c, e.fb)
                 /\ e.rerr = 0 /\ e.g = 1
                 /\ IF sk = "ietf" THEN e.re = e.in
                    ELSE e.re = EncPoint2(Q, cl = "cmp", c, e.fb, sk)
      [] OTHER -> FALSE
IsEp2Op(op) == op \in {"ep2_size_bin", "ep2_write_bin", "ep2_read_bin"}

(* ---- Edwards points: raw [x, y, z, c]; c = 1 affine, otherwise (x/z, y/z).  ev = variant of the  *)
(* reader: sg (sign function), neutral (the long forms of the neutral element are accepted),        *)
(* zsign (x = 0 returned although the sign bit asks for the other root); EdStrict(e) is the spec     *)
EdCurveOf(e) == [p |-> FPrime(e), a |-> FAbs(e, e.ea), d |-> FAbs(e, e.ed)]
EdAbs(e, P) ==
    LET p == FPrime(e)
        z == FAbs(e, P.z)
        x == FAbs(e, P.x)
        y == FAbs(e, P.y)
    IN  IF P.c = 1 THEN EdPt(x, y)
        ELSE LET zi == FInv(z, p) IN EdPt(FMul(x, zi, p), FMul(y, zi, p))
EdCanon(e, P) == FCanon(e, P.x) /\ FCanon(e, P.y) /\ FCanon(e, P.z) /\ FAbs(e, P.z) # <<>>
EdValid(Q, ec) == Q.inf \/ EdOnCurve(Q, ec)
EdStrict(e) == [sg |-> RawSg(e), neutral |-> FALSE, zsign |-> FALSE]
(* the reader's verdict and value under variant ev *)
EdDecV(s, ec, fb, ev) ==
    LET d == EdDec(s, ec, fb, ev.sg) IN
    IF d.ok THEN d
    ELSE IF Len(s) = fb + 1 /\ s[1] \in {2, 3} /\ BLt(BFromBE(SubSeq(s, 2, fb + 1)), ec.p) THEN
        LET y  == BFromBE(SubSeq(s, 2, fb + 1))
            d0 == EdDecompress(y, 0, ec, ev.sg)
        IN  \* only x = 0 can fail on the sign alone; the point is (0, 1) (neutral) or (0, -1)
            IF d0.ok /\ d0.v.x = <<>> /\ (s[1] = 2 \/ ev.zsign) /\ (~d0.v.inf \/ ev.neutral)
               /\ (s[1] = 2 => d0.v.inf) THEN d0 ELSE Bad
    ELSE IF Len(s) = 2 * fb + 1 /\ s[1] = 4 /\ ev.neutral
            /\ BFromBE(SubSeq(s, 2, fb + 1)) = <<1>> /\ BFromBE(SubSeq(s, fb + 2, 2 * fb + 1)) = <<>>
         THEN Ok(EdNeutral)
    ELSE Bad
EdCodecV(e, ev) ==
    LET ec == EdCurveOf(e) IN
    CASE e.op = "ed_size_bin" ->
            LET Q == EdAbs(e, e.P) IN
            EdCanon(e, e.P) /\ EdValid(Q, ec) /\ Clean(e) /\ e.size = EdEncSize(Q, e.pack # 0, e.fb)
      [] e.op = "ed_write_bin" ->
            LET Q == EdAbs(e, e.P)
                z == EdEncSize(Q, e.pack # 0, e.fb)
            IN  /\ EdCanon(e, e.P) /\ EdValid(Q, ec)
                /\ e.size = z /\ e.g = 1
                /\ IF e.len < z THEN BufErr(e)
                   ELSE Clean(e) /\ Prefix(e.out, z) = EdEnc(Q, e.pack # 0, ec, e.fb, ev.sg)
      [] e.op = "ed_read_bin" ->
            LET d == EdDecV(e.in, ec, e.fb, ev) IN
            IF ~d.ok THEN Failed(e)
            ELSE /\ Clean(e) /\ EdCanon(e, e.R) /\ EdAbs(e, e.R) = d.v
                 /\ (~ev.neutral /\ ~ev.zsign) => (e.rerr = 0 /\ e.re = e.in /\ e.g = 1)
      [] OTHER -> FALSE
IsEdOp(op) == op \in {"ed_size_bin", "ed_write_bin", "ed_read_bin"}

IsBnOp(op)  == op \in {"bn_size_bin", "bn_write_bin", "bn_read_bin", "bn_write_raw", "bn_read_raw",
                       "bn_size_str", "bn_write_str", "bn_read_str"}
IsFpOp(op)  == op \in {"fp_read_bin", "fp_write_bin", "fp_size_str", "fp_write_str", "fp_read_str"}
IsFpxOp(op) == op \in {"fp2_read_bin", "fp2_write_bin", "fp12_read_bin", "fp12_write_bin"}
IsEpOp(op)  == op \in {"ep_size_bin", "ep_write_bin", "ep_read_bin", "ep_pck", "ep_upk"}

CodecAccept(e) ==
    IF e.op \in {"curve_probe", "restart"} THEN TRUE
    ELSE IF Has(e, "crash") THEN FALSE
    ELSE IF e.op = "alias" THEN /\ e.ro = e.rn /\ e.eo = e.en               \* in place = out of place:
                                /\ ((e.ro # 0 /\ e.eo = 0) => e.o = e.n)    \* same verdict, same object unless refused
    ELSE IF IsBnOp(e.op) THEN BnCodec(e)
    ELSE IF IsFpOp(e.op) THEN FpCodec(e)
    ELSE IF e.op \in {"fp2_read_bin", "fp2_write_bin"} THEN Fp2CodecV(e, StrictV(e))
    ELSE IF IsFpxOp(e.op) THEN FpxCodec(e)
    ELSE IF IsEpOp(e.op) THEN EpCodec(e)
    ELSE IF IsEp2Op(e.op) THEN Ep2CodecSk(e, "ietf")
    ELSE IF IsEdOp(e.op) THEN EdCodecV(e, EdStrict(e))
    ELSE FALSE

(***************************************************************************)
(* Known findings (keys take effect only when listed in                    *)
(* /verif/known_findings.json).  Each is keyed on op + input class + the   *)
(* exact wrong outcome.                                                    *)
(*  C07-ep-read-bin-two-torsion-sign: ep_read_bin accepts the compressed   *)
(*    string whose bit asks for the non-existing second ordinate over an x *)
(*    with x^3+ax+b = 0 and returns (x, 0), which re-encodes differently.  *)
(*  C07-ep2-pck-sign-y1-zero: ep2_pck (ep2_write_bin, pack) takes the sign  *)
(*    bit from y1 alone while ep2_upk follows the IETF rule (y0 when        *)
(*    y1 = 0): for a point with y in F_p, y0 > (p-1)/2 the writer emits tag *)
(*    02 and decode(encode(P)) = -P.  The event is explained exactly by the *)
(*    sign function "y1only" in the writer.                                 *)
(*  fp2 packed form (fp2_pck / fp2_upk / fp2_read_bin, len = fb + 1):        *)
(*   C07-fp2-read-bin-sign-byte           sign byte other than 0/1 accepted  *)
(*   C07-fp2-read-bin-upk-failure-ignored a0 without a1: no error, object    *)
(*                                        left as (a0, raw bit)              *)
(*   C07-fp2-upk-assumes-qnr-minus-one    a1^2 = 1 - a0^2 used when i^2 # -1 *)
(*   C07-fp2-read-bin-zero-sign           a1 = 0 with sign byte 1 accepted   *)
(*  Edwards points (ed_pck / ed_upk / ed_read_bin):                          *)
(*   C07-ed-read-bin-neutral-long-form    04 1 0 and 02 1 decode to the      *)
(*                                        neutral element (canonically 00)   *)
(*   C07-ed-read-bin-zero-sign            x = 0 with sign bit 1 accepted     *)
(***************************************************************************)
TwoTorsionCase(e, sg) ==
    /\ e.op = "ep_read_bin" /\ Len(e.in) = e.fb + 1 /\ e.in[1] \in {2, 3}
    /\ LET c == CurveOf(e)
           x == BFromBE(SubSeq(e.in, 2, e.fb + 1))
       IN  /\ BLt(x, c.p) /\ Rhs(x, c) = <<>> /\ e.in[1] - 2 # SignBit(<<>>, c.p, sg)
           /\ Clean(e) /\ IsPoint(e, e.R, Pt(x, <<>>))

(* fp2 packed form: the cheapest variant of the reader that explains the event; every deviation *)
(* it uses is a finding of its own, ALL of them must be enabled                                   *)
Fp2Variants(e) ==
    {[sg |-> RawSg(e), anybyte |-> ab, nofail |-> nf, qm1 |-> qm, zsign |-> zs] :
        ab \in BOOLEAN, nf \in BOOLEAN, qm \in (IF e.qnr = 0 - 1 THEN {FALSE} ELSE BOOLEAN), zs \in BOOLEAN}
B2N(b) == IF b THEN 1 ELSE 0
VCost(v) == B2N(v.anybyte) + B2N(v.nofail) + B2N(v.qm1) + B2N(v.zsign)
VKeys(v) == (IF v.anybyte THEN {"C07-fp2-read-bin-sign-byte"} ELSE {})
            \cup (IF v.nofail THEN {"C07-fp2-read-bin-upk-failure-ignored"} ELSE {})
            \cup (IF v.qm1 THEN {"C07-fp2-upk-assumes-qnr-minus-one"} ELSE {})
            \cup (IF v.zsign THEN {"C07-fp2-read-bin-zero-sign"} ELSE {})
Fp2KnownKeys(e) ==
    LET Vs == {v \in Fp2Variants(e) : Fp2CodecV(e, v)} IN
    IF Vs = {} THEN {}
    ELSE VKeys(CHOOSE v \in Vs : \A u \in Vs : VCost(v) <= VCost(u))

EdVariants(e) ==
    {[sg |-> RawSg(e), neutral |-> nt, zsign |-> zs] : nt \in BOOLEAN, zs \in BOOLEAN}
EdVCost(v) == B2N(v.neutral) + B2N(v.zsign)
EdVKeys(v) == (IF v.neutral THEN {"C07-ed-read-bin-neutral-long-form"} ELSE {})
              \cup (IF v.zsign THEN {"C07-ed-read-bin-zero-sign"} ELSE {})
EdKnownKeys(e) ==
    LET Vs == {v \in EdVariants(e) : EdCodecV(e, v)} IN
    IF Vs = {} THEN {}
    ELSE EdVKeys(CHOOSE v \in Vs : \A u \in Vs : EdVCost(v) <= EdVCost(u))

(* the set of known-finding keys that together explain a rejected event ({} = none) *)
CodecKnownKeys(e) ==
    IF Has(e, "crash") THEN {}
    ELSE IF e.op \in {"fp2_read_bin", "fp2_write_bin"} THEN Fp2KnownKeys(e)
    ELSE IF IsEdOp(e.op) THEN EdKnownKeys(e)
    ELSE IF IsEp2Op(e.op) THEN
        (IF e.op # "ep2_size_bin" /\ Ep2CodecSk(e, "y1only") THEN {"C07-ep2-pck-sign-y1-zero"} ELSE {})
    ELSE IF ~IsEpOp(e.op) THEN {}
    ELSE IF TwoTorsionCase(e, SgOf(e)) THEN {"C07-ep-read-bin-two-torsion-sign"}
    ELSE {}
(* a single representative ("" = none) *)
CodecKnownKey(e) == LET ks == CodecKnownKeys(e) IN IF ks = {} THEN "" ELSE CHOOSE k \in ks : TRUE
=============================================================================
