SPECIFICATION Spec
CONSTANTS
    Scheme = "paillier"
    K = 6
    A = 4
    MinPS = 2
    CheckPS = TRUE
    MaxN = 127
    HomMax = 33
    Qs = {5, 7}
    MaxShares = 4
INVARIANTS PaillierInverts PaillierHomomorphic
CHECK_DEADLOCK FALSE
