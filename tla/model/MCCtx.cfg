CONSTANTS Params <- ParamsDef
          Kind <- KindDef
          Contexts = {"c1", "c2", "c3"}  Threads = {"t1", "t2"}  MaxSteps = 5
SPECIFICATION Spec
INVARIANTS NoStaleState Independence
CHECK_DEADLOCK FALSE
