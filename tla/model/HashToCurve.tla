---------------------------- MODULE HashToCurve ----------------------------
(***************************************************************************)
(* Design-level model of the maps to prime curves (C13), over native       *)
(* integers modulo small primes.  One state per curve y^2 = x^3 + a x + b  *)
(* over F_p (p in Primes, nonsingular).  For EVERY admissible map constant *)
(* Z and EVERY field element u (incl. u = 0 and the exceptional u):        *)
(*                                                                         *)
(*  Sswu      (a b # 0) the straight-line program of TMPL_MAP_SSWU         *)
(*            (src/tmpl/relic_ep_map_tmpl.h) with its copy_sec patches,    *)
(*            followed by the sign fix of EP_MAP_APPLY_MAP                 *)
(*            (src/ep/relic_ep_map.c), transcribed statement by statement, *)
(*            returns a point of the curve, equal to the two-branch        *)
(*            definition of RFC 9380 section 6.6.2, with sgn0(y) = sgn0(u) *)
(*            (or y = 0).  Z ranges over every value the library's search  *)
(*            loop in ep_curve_set_map can stop at (Z non-square,          *)
(*            g(B/(Z A)) square): a superset of the Z of RFC 9380 H.2.     *)
(*  Svdw      (every curve) the program of TMPL_MAP_SVDW against RFC 9380  *)
(*            section 6.6.1, Z ranging over the values meeting the four    *)
(*            criteria of RFC 9380 section 6.6.1; the constants c1..c4 are *)
(*            computed as ep_curve_set_map does.  SvdwGap records what the *)
(*            model shows about the library's own search loop, which tests *)
(*            criteria 1-3 only: when criterion 4 (g(Z) or g(-Z/2) square) *)
(*            fails, the u with 1 +- u^2 g(Z) = 0 have no image (the       *)
(*            program ends in the square root of a non-square: the library *)
(*            throws); everywhere else it still agrees with the RFC.       *)
(*  Iso       (curves E' with a' b' # 0 and a rational point (x0, 0) of    *)
(*            order two) Velu's 2-isogeny E' -> E = E'/<(x0,0)> written as *)
(*            coefficient vectors xn, xd, yn, yd; the Horner evaluation    *)
(*            and the three normalisations of TMPL_MAP_ISOGENY_MAP         *)
(*            (affine / projective / Jacobian) as coded map every          *)
(*            Sswu_E'(u) to a point of E (the kernel point to infinity)    *)
(*            and agree with the rational map Nx/Dx, y Ny/Dy.              *)
(***************************************************************************)
EXTENDS Integers, Sequences, FiniteSets, TLC
CONSTANT Primes
VARIABLES p, a, b

Init == /\ p \in Primes /\ a \in 0..(p - 1) /\ b \in 0..(p - 1)
        /\ (4 * a * a * a + 27 * b * b) % p # 0
Next == UNCHANGED <<p, a, b>>
Spec == Init /\ [][Next]_<<p, a, b>>

F == 0..(p - 1)
M(x, y) == (x * y) % p
A(x, y) == (x + y) % p
S(x, y) == (x + p - y) % p
Neg(x) == (p - x) % p
Sq(x) == (x * x) % p
Inv(x) == IF x = 0 THEN 0 ELSE CHOOSE y \in F : (x * y) % p = 1      \* inv0
IsSq(x) == \E y \in F : (y * y) % p = x                              \* is_square (0 is a square)
Rt(x) == CHOOSE y \in F : (y * y) % p = x                            \* some root; the sign is fixed afterwards
Sgn0(x) == x % 2
G(aa, bb, x) == A(M(A(Sq(x), aa), x), bb)                            \* x^3 + aa x + bb
OnE(aa, bb, P) == Sq(P[2]) = G(aa, bb, P[1])
Sel(c, t, f) == IF c THEN t ELSE f                                   \* copy_sec(f <- t if c)

(* ------------------------------------------------------------------ SSWU *)
(* Z the library's loop may select (ep_curve_set_map): non-square and g(b/(Z a)) square *)
SswuZ(aa, bb) == {z \in 1..(p - 1) : ~IsSq(z) /\ IsSq(G(aa, bb, M(bb, Inv(M(aa, z)))))}
(* RFC 9380 appendix H.2 find_z_sswu additionally wants Z # -1 and g(x) - Z without root *)
SswuZRfc(aa, bb) == {z \in SswuZ(aa, bb) : z # p - 1 /\ \A x \in F : G(aa, bb, x) # z}

(* TMPL_MAP_SSWU as coded: <<x, g, ok>>, g the value whose root is taken, ok = a root exists *)
SswuCoded(aa, bb, z, t) ==
    LET mBoverA == M(Neg(bb), Inv(aa))          \* c[0] = -b/a, c[2] = a, c[3] = b
        t0 == M(Sq(t), z)                       \* u t^2
        t1 == Sq(t0)                            \* u^2 t^4
        t2 == A(t1, t0)
        e1 == t2 = 0
        t3 == Neg(z)
        t2a == Sel(e1, t3, t2)                  \* copy_sec(t2, t3, e1)
        t2b == Inv(t2a)
        t3b == A(t2b, 1)
        t2c == Sel(~e1, t3b, t2b)               \* copy_sec(t2, t3, e1 == 0)
        x1 == M(t2c, mBoverA)
        y1 == G(aa, bb, x1)
        x2 == M(t0, x1)                         \* u t^2 x1
        t1b == M(t0, t1)                        \* u^3 t^6
        y2 == M(t1b, y1)
        e2 == IsSq(y1)
    IN  <<Sel(~e2, x2, x1), Sel(~e2, y2, y1)>>
(* EP_MAP_APPLY_MAP: neg = even(t) # even(y); y = neg ? -y : y *)
SignFix(t, y) == Sel((t % 2 = 0) # (y % 2 = 0), Neg(y), y)
SswuPoint(aa, bb, z, t) == LET r == SswuCoded(aa, bb, z, t) IN <<r[1], SignFix(t, Rt(r[2]))>>

(* RFC 9380 section 6.6.2, the case analysis *)
SswuRfc(aa, bb, z, u) ==
    LET tv1 == Inv(A(M(Sq(z), Sq(Sq(u))), M(z, Sq(u))))
        x1 == IF tv1 = 0 THEN M(bb, Inv(M(z, aa)))
              ELSE M(M(Neg(bb), Inv(aa)), A(1, tv1))
        gx1 == G(aa, bb, x1)
        x2 == M(M(z, Sq(u)), x1)
        gx2 == G(aa, bb, x2)
        xy == IF IsSq(gx1) THEN <<x1, Rt(gx1)>> ELSE <<x2, Rt(gx2)>>
    IN  <<xy[1], IF Sgn0(u) # Sgn0(xy[2]) THEN Neg(xy[2]) ELSE xy[2]>>

SswuOk ==
    (a # 0 /\ b # 0) =>
    \A z \in SswuZ(a, b) : \A u \in F :
        LET r == SswuCoded(a, b, z, u)
            P == SswuPoint(a, b, z, u)
        IN  /\ IsSq(r[2])                                   \* fp_srt cannot fail
            /\ r[2] = G(a, b, r[1])                         \* the value rooted is g(x)
            /\ OnE(a, b, P)
            /\ P = SswuRfc(a, b, z, u)
            /\ (P[2] = 0 \/ Sgn0(P[2]) = Sgn0(u))
(* the exceptional inputs exist and are exercised: u = 0 always; Z u^2 = -1 when -1/Z is a square *)
SswuExceptional(z) == {u \in F : A(Sq(M(z, Sq(u))), M(z, Sq(u))) = 0}

(* ------------------------------------------------------------------ SvdW *)
SvdwC3sq(aa, bb, z) == M(Neg(G(aa, bb, z)), A(M(3, Sq(z)), M(4, aa)))      \* -g(Z)(3Z^2 + 4a)
(* the library's search loop: c3^2 a non-zero square (criteria 1-3 of RFC 9380 6.6.1) *)
SvdwZ(aa, bb) == {z \in 1..(p - 1) : SvdwC3sq(aa, bb, z) # 0 /\ IsSq(SvdwC3sq(aa, bb, z))}
Crit4(aa, bb, z) == IsSq(G(aa, bb, z)) \/ IsSq(G(aa, bb, M(Neg(z), Inv(2))))
SvdwZRfc(aa, bb) == {z \in SvdwZ(aa, bb) : Crit4(aa, bb, z)}

SvdwConsts(aa, bb, z) ==
    LET gU == G(aa, bb, z)
        c1 == M(M(Neg(1), Inv(2)), z)                       \* -u/2 (fp_hlv of -1, times u)
        c3n == Neg(A(M(3, Sq(z)), M(4, aa)))                \* -(3u^2 + 4a)
        r == Rt(M(c3n, gU))
        c2 == IF r % 2 # 0 THEN Neg(r) ELSE r               \* sgn0(c2) = 0
        c3 == M(M(Inv(c3n), gU), 4)
    IN  <<gU, c1, c2, c3>>

(* TMPL_MAP_SVDW as coded: <<x, g>> *)
SvdwCoded(aa, bb, z, t) ==
    LET c == SvdwConsts(aa, bb, z)
        gU == c[1]  mUover2 == c[2]  c3 == c[3]  c4 == c[4]
        t1a == M(Sq(t), gU)
        t2 == A(t1a, 1)
        t1 == Neg(S(t1a, 1))                                \* 1 - t^2 g(u)
        t3a == M(t1, t2)
        e0 == t3a = 0
        t3b == Inv(Sel(e0, gU, t3a))
        t3 == Sel(e0, 0, t3b)
        t4 == M(M(M(t, t1), t3), c3)
        x1 == S(mUover2, t4)
        y1 == G(aa, bb, x1)
        f0 == IsSq(y1)
        t4b == A(mUover2, t4)
        xb == Sel(~f0, t4b, x1)
        yb == Sel(~f0, G(aa, bb, xb), y1)
        f1 == IsSq(yb)
        x3 == A(M(Sq(M(Sq(t2), t3)), c4), z)
        xc == Sel(~f1, x3, xb)
        yc == Sel(~f1, G(aa, bb, xc), yb)
    IN  <<xc, yc>>
SvdwPoint(aa, bb, z, t) == LET r == SvdwCoded(aa, bb, z, t) IN <<r[1], SignFix(t, Rt(r[2]))>>

(* RFC 9380 section 6.6.1 *)
SvdwRfc(aa, bb, z, u) ==
    LET gz == G(aa, bb, z)
        tv1a == M(Sq(u), gz)
        tv2 == A(1, tv1a)
        tv1 == S(1, tv1a)
        tv3 == Inv(M(tv1, tv2))
        r == Rt(SvdwC3sq(aa, bb, z))
        tv4 == IF Sgn0(r) = 1 THEN Neg(r) ELSE r
        tv5 == M(M(M(u, tv1), tv3), tv4)
        tv6 == M(M(Neg(4), gz), Inv(A(M(3, Sq(z)), M(4, aa))))
        x1 == S(M(Neg(z), Inv(2)), tv5)
        x2 == A(M(Neg(z), Inv(2)), tv5)
        x3 == A(z, M(tv6, Sq(M(Sq(tv2), tv3))))
        x == IF IsSq(G(aa, bb, x1)) THEN x1 ELSE IF IsSq(G(aa, bb, x2)) THEN x2 ELSE x3
        y == Rt(G(aa, bb, x))
    IN  <<x, IF Sgn0(u) # Sgn0(y) THEN Neg(y) ELSE y>>

SvdwExceptional(aa, bb, z) ==
    {u \in F : M(A(1, M(Sq(u), G(aa, bb, z))), S(1, M(Sq(u), G(aa, bb, z)))) = 0}
SvdwGood(z, u) ==
    LET r == SvdwCoded(a, b, z, u)
        P == SvdwPoint(a, b, z, u)
    IN  /\ IsSq(r[2]) /\ r[2] = G(a, b, r[1]) /\ OnE(a, b, P)
        /\ P = SvdwRfc(a, b, z, u)
        /\ (P[2] = 0 \/ Sgn0(P[2]) = Sgn0(u))
SvdwOk == \A z \in SvdwZRfc(a, b) : \A u \in F : SvdwGood(z, u)
(* the library's loop does not test criterion 4: exactly the exceptional u then have no image *)
SvdwGap ==
    \A z \in SvdwZ(a, b) \ SvdwZRfc(a, b) : \A u \in F :
        IF u \in SvdwExceptional(a, b, z) THEN ~IsSq(SvdwCoded(a, b, z, u)[2]) ELSE SvdwGood(z, u)

(* --------------------------------------------------------------- isogeny *)
(* PFX_eval: Horner, coefficients lowest first, deg = Len - 1 *)
RECURSIVE HornerR(_, _, _, _)
HornerR(c, cs, x, i) == IF i = 0 THEN c ELSE HornerR(A(M(c, x), cs[i]), cs, x, i - 1)
Horner(cs, x) == HornerR(cs[Len(cs)], cs, x, Len(cs) - 1)
RECURSIVE PolyR(_, _, _, _)
PolyR(cs, x, i, xp) == IF i > Len(cs) THEN 0 ELSE A(M(cs[i], xp), PolyR(cs, x, i + 1, M(xp, x)))
Poly(cs, x) == PolyR(cs, x, 1, 1)

(* Velu: kernel {O, (x0, 0)} on E': y^2 = x^3 + aa x + bb *)
Velu(aa, bb, x0) ==
    LET t == A(M(3, Sq(x0)), aa)
        w == M(x0, t)
    IN  [A |-> S(aa, M(5, t)), B |-> S(bb, M(7, w)),
         xn |-> <<t, Neg(x0), 1>>,                                  \* x^2 - x0 x + t
         xd |-> <<Neg(x0), 1>>,                                     \* x - x0
         yn |-> <<S(Sq(x0), t), M(Neg(2), x0), 1>>,                 \* (x - x0)^2 - t
         yd |-> <<Sq(x0), M(Neg(2), x0), 1>>]                       \* (x - x0)^2
(* TMPL_MAP_ISOGENY_MAP + TMPL_MAP_ISOMAP_NORM, returned as the affine point it represents (<<>> = infinity) *)
IsoCoded(iso, P, sys) ==
    LET t0 == Horner(iso.xn, P[1])
        t1 == Horner(iso.yn, P[1])
        t2 == Horner(iso.yd, P[1])
        t3 == Horner(iso.xd, P[1])
    IN  IF sys = "projc" THEN
            LET Z == M(t2, t3)  X == M(t0, t2)  Y == M(M(P[2], t1), t3)
            IN  IF Z = 0 THEN <<>> ELSE <<M(X, Inv(Z)), M(Y, Inv(Z))>>
        ELSE IF sys = "jacob" THEN
            LET Z == M(t2, t3)
                Y == M(M(M(P[2], t1), t3), Sq(Z))
                X == M(M(t0, t2), Z)
            IN  IF Z = 0 THEN <<>> ELSE <<M(X, Inv(Sq(Z))), M(Y, Inv(M(Sq(Z), Z)))>>
        ELSE LET zi == Inv(M(t2, t3))
             IN  IF zi = 0 THEN <<>> ELSE <<M(M(t2, zi), t0), M(M(M(P[2], zi), t3), t1)>>
IsoOk ==
    (a # 0 /\ b # 0) =>
    \A x0 \in {x \in F : G(a, b, x) = 0} :
        LET iso == Velu(a, b, x0) IN
        \A z \in SswuZ(a, b) : \A u \in F : \A sys \in {"basic", "projc", "jacob"} :
            LET P == SswuPoint(a, b, z, u)
                Q == IsoCoded(iso, P, sys)
            IN  /\ Horner(iso.xn, P[1]) = Poly(iso.xn, P[1]) /\ Horner(iso.yd, P[1]) = Poly(iso.yd, P[1])
                /\ IF P[1] = x0 THEN Q = <<>>
                   ELSE /\ Q = <<M(Poly(iso.xn, P[1]), Inv(Poly(iso.xd, P[1]))),
                                 M(P[2], M(Poly(iso.yn, P[1]), Inv(Poly(iso.yd, P[1]))))>>
                        /\ OnE(iso.A, iso.B, Q)

Check == SswuOk /\ SvdwOk /\ SvdwGap /\ IsoOk
=============================================================================
