------------------------------ MODULE DrbgSpec ------------------------------
(***************************************************************************)
(* NIST SP 800-90A Hash_DRBG (SHA-256, seedlen 440 bits, no prediction     *)
(* resistance) as a state machine over (V, C, ctr), with the hash function *)
(* BOUND FROM THE TRACE: every call the implementation makes to SHA-256 is *)
(* an event [in, out]; an API event is explained iff the hash inputs are   *)
(* exactly the ones the standard prescribes at that point, in order, and   *)
(* outputs and the new state follow from the bound hash outputs.           *)
(* (That SHA-256 itself is right is property C14.)                         *)
(* V, C: big-endian byte sequences of SL bytes.                            *)
(***************************************************************************)
EXTENDS BigInt, Sequences, Naturals

SL == 55          \* seedlen in bytes
HL == 32          \* SHA-256 output bytes
MaxReq == 65536   \* per-call limit in bytes (2^19 bits)

CeilDiv(a, b) == (a + b - 1) \div b
Take(s, n) == SubSeq(s, 1, IF n < Len(s) THEN n ELSE Len(s))
Mod2SL(x) == BLow(x, 8 * SL)
AddBE(v, x) == BToBE(Mod2SL(BAdd(BFromBE(v), x)), SL)       \* (v + x) mod 2^seedlen
BE32(n) == <<(n \div 16777216) % 256, (n \div 65536) % 256, (n \div 256) % 256, n % 256>>

RECURSIVE Concat(_, _, _)
Concat(hs, i, n) == IF i > n THEN <<>> ELSE hs[i].out \o Concat(hs, i + 1, n)

(* Hash_df(x, SL) explained by hash events hs[from .. from+1]: returns <<ok, value>> *)
HashDfOK(hs, from, x) ==
    LET m == CeilDiv(SL, HL) IN
    /\ Len(hs) >= from + m - 1
    /\ \A i \in 1..m : hs[from + i - 1].in = <<i>> \o BE32(8 * SL) \o x
HashDfVal(hs, from) == Take(Concat(hs, from, from + CeilDiv(SL, HL) - 1), SL)

(* instantiate / reseed: 2*ceil(SL/HL) hash events *)
SeedOK(st, hs, data, reseed) ==
    LET m  == CeilDiv(SL, HL)
        x1 == IF reseed THEN <<1>> \o st.V \o data ELSE data
        v  == HashDfVal(hs, 1)
    IN  /\ Len(hs) = 2 * m
        /\ HashDfOK(hs, 1, x1)
        /\ HashDfOK(hs, m + 1, <<0>> \o v)
SeedState(hs) == [V |-> HashDfVal(hs, 1), C |-> HashDfVal(hs, CeilDiv(SL, HL) + 1), ctr |-> 1]

(* generate: hashgen over V, V+1, ... then H = Hash(03 || V); V' = V + H + C + ctr *)
GenOK(st, hs, len) ==
    LET m == CeilDiv(len, HL) IN
    /\ Len(hs) = m + 1
    /\ \A i \in 1..m : hs[i].in = AddBE(st.V, BFromNat(i - 1))
    /\ hs[m + 1].in = <<3>> \o st.V
GenOut(hs, len) == Take(Concat(hs, 1, CeilDiv(len, HL)), len)
GenState(st, hs, len) ==
    LET h == hs[CeilDiv(len, HL) + 1].out IN
    [V |-> AddBE(st.V, BAdd(BAdd(BFromBE(h), BFromBE(st.C)), BFromNat(st.ctr))),
     C |-> st.C, ctr |-> st.ctr + 1]

(* bn_rand: the next digits*w bytes are the little-endian digits, masked to `bits` *)
RandLen(bits, w) == CeilDiv(bits, 8 * w) * w
RandVal(out, bits) == BLow(BNorm(out), bits)
=============================================================================
