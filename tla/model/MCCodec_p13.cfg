CONSTANTS
  PW = 13
  CA = 1
  CB = 0
  EA = 12
  ED = 2
  MaxLen = 3
  FirstBytes <- OnlyFour
  VMax = 64
  TextLen = 1
  SqrtPrimes = {3, 5, 7, 13, 17, 41, 97, 113, 193, 241, 251, 257}
SPECIFICATION Spec
INVARIANTS BinInv FpInv EpInv EdInv TextInv ValInv PointInv
CHECK_DEADLOCK FALSE
