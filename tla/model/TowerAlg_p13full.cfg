CONSTANTS p = 13
 nq = 2
 qnr2 = 0
 big = TRUE
 phases = {"quad", "sextic", "dodecic", "cyc"}
SPECIFICATION Spec
INVARIANT Check
CHECK_DEADLOCK FALSE
