------------------------------- MODULE FpMonty -------------------------------
(***************************************************************************)
(* Design-level model of the prime-field core of RELIC's portable back-end *)
(* (C02), transcribed digit by digit over a small digit width W:           *)
(*                                                                         *)
(*   fp_muln_low       Comba product with the triple register r2:r1:r0     *)
(*                     (src/low/easy/relic_fp_mul_low.c, RLC_COMBA_ macros)*)
(*   fp_mul_basic      row-wise product with fp_mula_low and stored carry  *)
(*                     (src/fp/relic_fp_mul.c)                             *)
(*   fp_rdcn_low       Comba Montgomery reduction; the quotient digits are *)
(*                     written into c and overwritten by the result; final *)
(*                     subtraction if (r1 || c >= p)                       *)
(*                     (src/low/easy/relic_fp_rdc_low.c)                   *)
(*   fp_rdc_monty_basic  row-wise reduction: a[i] <- carry of the i-th row,*)
(*                     then fp_addm_low(c, high half, carries)             *)
(*                     (src/fp/relic_fp_rdc.c)                             *)
(*   fp_addm/subm/negm/dblm/hlvm_low, fp_dbl_basic (fp_lsh1_low): the      *)
(*                     carry/borrow loops and the conditional correction   *)
(*                     (src/low/easy/relic_fp_add_low.c, relic_fp_add.c)   *)
(*                                                                         *)
(* for EVERY odd prime modulus p of exactly n digits (n in Ns; the library *)
(* insists on p->used = RLC_FP_DIGS), R = 2^(W*n), every pair of residues  *)
(* (products, sums, ...) and every double-length value below p*R           *)
(* (reductions), checked against TLC's native integers.  With W = 2 or 3   *)
(* the carry-out of the final addition, the r1 # 0 case and the borrow of  *)
(* every digit position occur in a large share of the states.              *)
(* One action per outer-loop iteration; inner digit loops are recursive    *)
(* operators over the same digit-level steps as the C code.                *)
(***************************************************************************)
EXTENDS Naturals, Integers, Sequences, FiniteSets, TLC

CONSTANTS W,        \* bits per digit
          Ns,       \* set of digit counts n
          Kinds,    \* subset of AllKinds
          Moduli    \* {} = every odd prime of exactly n digits; otherwise restrict to this set

AllKinds == {"mulc", "mulb", "rdcc", "rdcb", "add", "sub", "neg", "dbl", "dblb", "hlv"}

RECURSIVE Pow(_, _)
Pow(x, k) == IF k = 0 THEN 1 ELSE x * Pow(x, k - 1)
Bs == Pow(2, W)
Half == Pow(2, W - 1)

IsPrime(q) == q >= 2 /\ \A d \in 2..(q - 1) : d * d > q \/ q % d # 0
PrimesOf(n) == {q \in Pow(Bs, n - 1)..(Pow(Bs, n) - 1) :
                   q % 2 = 1 /\ q >= 3 /\ IsPrime(q) /\ (Moduli = {} \/ q \in Moduli)}

VARIABLES pc, kind, n, p, u, x, y, T0, t, c, r, i, ovf, out
vars == <<pc, kind, n, p, u, x, y, T0, t, c, r, i, ovf, out>>

R == Pow(Bs, n)
ToArr(v, len) == [j \in 0..(len - 1) |-> (v \div Pow(Bs, j)) % Bs]
RECURSIVE ValR(_, _, _)
ValR(a, len, j) == IF j >= len THEN 0 ELSE a[j] + Bs * ValR(a, len, j + 1)
Val(a, len) == ValR(a, len, 0)
M == ToArr(p, n)                 \* the modulus as digits
B2N(b) == IF b THEN 1 ELSE 0

(***************************************************************************)
(* digit-level primitives                                                  *)
(***************************************************************************)
(* RLC_COMBA_ADD on the triple register <<r0, r1, r2, overflowed>> *)
ComAdd(q, a) ==
    LET r0 == (q[1] + a) % Bs
        r1 == (q[2] + B2N(r0 < a)) % Bs
        r2 == q[3] + B2N(r1 < q[2])
    IN  <<r0, r1, r2 % Bs, q[4] \/ r2 >= Bs>>
(* RLC_COMBA_STEP_MUL *)
StepMul(q, a, b) ==
    LET lo == (a * b) % Bs
        hi == (a * b) \div Bs
        s  == ComAdd(q, lo)
        r1 == (s[2] + hi) % Bs
        r2 == s[3] + B2N(r1 < hi)
    IN  <<s[1], r1, r2 % Bs, s[4] \/ r2 >= Bs>>
(* sum over j = lo..hi of f[j] * g[s - j] accumulated into the register *)
RECURSIVE ColSum(_, _, _, _, _, _)
ColSum(q, f, g, lo, hi, s) ==
    IF lo > hi THEN q ELSE ColSum(StepMul(q, f[lo], g[s - lo]), f, g, lo + 1, hi, s)
Shift(q) == <<q[2], q[3], 0, q[4]>>

(* fp_addn_low: <<digits, carry>> *)
RECURSIVE AddNR(_, _, _, _, _)
AddNR(a, b, k, len, cy) ==
    IF k >= len THEN <<[j \in {} |-> 0], cy>>
    ELSE LET r0 == (a[k] + b[k]) % Bs
             c0 == B2N(r0 < a[k])
             r1 == (r0 + cy) % Bs
             c1 == B2N(r1 < r0)
             rest == AddNR(a, b, k + 1, len, IF c0 = 1 \/ c1 = 1 THEN 1 ELSE 0)
         IN  <<[j \in {k} \cup DOMAIN rest[1] |-> IF j = k THEN r1 ELSE rest[1][j]], rest[2]>>
AddN(a, b, len) == AddNR(a, b, 0, len, 0)
(* fp_subn_low: <<digits, borrow>> *)
RECURSIVE SubNR(_, _, _, _, _)
SubNR(a, b, k, len, cy) ==
    IF k >= len THEN <<[j \in {} |-> 0], cy>>
    ELSE LET diff == (a[k] + Bs - b[k]) % Bs
             r0   == (diff + Bs - cy) % Bs
             nc   == B2N(a[k] < b[k] \/ (cy = 1 /\ diff = 0))
             rest == SubNR(a, b, k + 1, len, nc)
         IN  <<[j \in {k} \cup DOMAIN rest[1] |-> IF j = k THEN r0 ELSE rest[1][j]], rest[2]>>
SubN(a, b, len) == SubNR(a, b, 0, len, 0)
(* dv_cmp(a, b) != RLC_LT *)
GeP(a) == Val(a, n) >= p
(* the conditional correction shared by fp_addm_low / fp_dblm_low / fp_add_basic / fp_dbl_basic *)
CondSub(a, cy) == IF cy # 0 \/ GeP(a) THEN SubN(a, M, n)[1] ELSE a

(* fp_mula_low(c + off, a, digit): c[off .. off+n-1] += a * digit; <<digits of c, carry, carry overflowed>> *)
RECURSIVE MulAR(_, _, _, _, _, _)
MulAR(cc, off, a, d, k, cy) ==
    IF k >= n THEN <<cc, cy, cy >= Bs>>
    ELSE LET r0 == (a[k] * d) % Bs
             r1 == (a[k] * d) \div Bs
             s  == (r0 + cy) % Bs
             c1 == r1 + B2N(s < cy)
             v  == (cc[off + k] + s) % Bs
             c2 == c1 + B2N(v < s)
         IN  MulAR([cc EXCEPT ![off + k] = v], off, a, d, k + 1, c2)
MulA(cc, off, a, d) == MulAR(cc, off, a, d, 0, 0)

(* fp_lsh1_low: <<digits, carry>> *)
RECURSIVE Lsh1R(_, _, _)
Lsh1R(a, k, cy) ==
    IF k >= n THEN <<[j \in {} |-> 0], cy>>
    ELSE LET rest == Lsh1R(a, k + 1, a[k] \div Half)
         IN  <<[j \in {k} \cup DOMAIN rest[1] |-> IF j = k THEN ((a[k] * 2) % Bs) + cy ELSE rest[1][j]], rest[2]>>
(* fp_rsh1_low, from the top digit down *)
RECURSIVE Rsh1R(_, _, _)
Rsh1R(a, k, cy) ==
    IF k < 0 THEN [j \in {} |-> 0]
    ELSE LET rest == Rsh1R(a, k - 1, a[k] % 2)
         IN  [j \in {k} \cup DOMAIN rest |-> IF j = k THEN (a[k] \div 2) + cy * Half ELSE rest[j]]
XorTop(a) == [a EXCEPT ![n - 1] = IF (a[n - 1] \div Half) % 2 = 0 THEN a[n - 1] + Half ELSE a[n - 1] - Half]

(***************************************************************************)
(* Init: every modulus, every job, every operand                           *)
(***************************************************************************)
Zero3 == <<0, 0, 0, FALSE>>
Init ==
    \E nn \in Ns : \E pp \in PrimesOf(nn) : \E kk \in Kinds :
      \E xx \in 0..(IF kk \in {"rdcc", "rdcb"} THEN pp * Pow(Bs, nn) - 1 ELSE pp - 1) :
        \E yy \in 0..(IF kk \in {"mulc", "mulb", "add", "sub"} THEN pp - 1 ELSE 0) :
          /\ n = nn /\ p = pp /\ kind = kk
          /\ u = CHOOSE v \in 0..(Bs - 1) : (v * pp + 1) % Bs = 0
          /\ IF kk \in {"rdcc", "rdcb"}
             THEN x = 0 /\ y = 0 /\ T0 = xx /\ t = ToArr(xx, 2 * nn)
             ELSE x = xx /\ y = yy /\ T0 = xx * yy /\ t = ToArr(0, 2 * nn)
          /\ c = ToArr(0, nn)
          /\ r = Zero3 /\ i = 0 /\ ovf = FALSE /\ out = 0 - 1
          /\ pc = CASE kk = "mulc" -> "muln"
                    [] kk = "mulb" -> "mulb"
                    [] kk = "rdcc" -> "rdcn1"
                    [] kk = "rdcb" -> "rdcb"
                    [] OTHER -> "arith"

X == ToArr(x, n)
Y == ToArr(y, n)

(* fp_muln_low: column i of the product *)
MulnCol ==
    /\ pc = "muln"
    /\ LET q == IF i < n THEN ColSum(r, X, Y, 0, i, i) ELSE ColSum(r, X, Y, i - n + 1, n - 1, i)
       IN  /\ t' = [t EXCEPT ![i] = q[1]]
           /\ r' = Shift(q)
           /\ ovf' = (ovf \/ q[4])
    /\ IF i = 2 * n - 1 THEN pc' = "rdcn1" /\ i' = 0 ELSE pc' = pc /\ i' = i + 1
    /\ UNCHANGED <<kind, n, p, u, x, y, T0, c, out>>

(* fp_mul_basic: row i, carry stored at t[i + n] *)
MulbRow ==
    /\ pc = "mulb"
    /\ LET m == MulA(t, i, Y, X[i])
       IN  /\ t' = [m[1] EXCEPT ![i + n] = m[2] % Bs]
           /\ ovf' = (ovf \/ m[3])
    /\ IF i = n - 1 THEN pc' = "rdcb" /\ i' = 0 ELSE pc' = pc /\ i' = i + 1
    /\ UNCHANGED <<kind, n, p, u, x, y, T0, c, r, out>>

(* fp_rdcn_low, first loop: column i < n produces the quotient digit c[i] *)
Rdcn1 ==
    /\ pc = "rdcn1"
    /\ LET q1 == ComAdd(ColSum(r, c, M, 0, i - 1, i), t[i])
           ci == (q1[1] * u) % Bs
           q2 == StepMul(q1, ci, M[0])
       IN  /\ c' = [c EXCEPT ![i] = ci]
           /\ r' = Shift(q2)
           /\ ovf' = (ovf \/ q2[4] \/ q2[1] # 0)      \* the column must cancel exactly
    /\ IF i = n - 1 THEN (pc' = IF n = 1 THEN "rdcn3" ELSE "rdcn2") /\ i' = n ELSE pc' = pc /\ i' = i + 1
    /\ UNCHANGED <<kind, n, p, u, x, y, T0, t, out>>

(* second loop: column i in n..2n-2 writes result digit c[i - n] over a spent quotient digit *)
Rdcn2 ==
    /\ pc = "rdcn2"
    /\ LET q == ComAdd(ColSum(r, c, M, i - n + 1, n - 1, i), t[i])
       IN  /\ c' = [c EXCEPT ![i - n] = q[1]]
           /\ r' = Shift(q)
           /\ ovf' = (ovf \/ q[4])
    /\ IF i = 2 * n - 2 THEN pc' = "rdcn3" /\ i' = i + 1 ELSE pc' = pc /\ i' = i + 1
    /\ UNCHANGED <<kind, n, p, u, x, y, T0, t, out>>

(* last column and the final conditional subtraction: if (r1 || c >= p) c -= p *)
Rdcn3 ==
    /\ pc = "rdcn3"
    /\ LET q  == ComAdd(r, t[2 * n - 1])
           c1 == [c EXCEPT ![n - 1] = q[1]]
           c2 == IF q[2] # 0 \/ GeP(c1) THEN SubN(c1, M, n)[1] ELSE c1
       IN  /\ c' = c2
           /\ r' = q
           /\ ovf' = (ovf \/ q[4] \/ q[3] # 0 \/ q[2] > 1)
           /\ out' = Val(c2, n)
    /\ pc' = "done"
    /\ UNCHANGED <<kind, n, p, u, x, y, T0, t, i>>

(* fp_rdc_monty_basic, row i: r = a[i] * u; a[i .. i+n-1] += p * r; a[i] = carry *)
RdcbRow ==
    /\ pc = "rdcb"
    /\ LET d == (t[i] * u) % Bs
           m == MulA(t, i, M, d)
       IN  /\ t' = [m[1] EXCEPT ![i] = m[2] % Bs]
           /\ ovf' = (ovf \/ m[3] \/ m[1][i] # 0)     \* the digit must cancel exactly
    /\ IF i = n - 1 THEN pc' = "rdcbfin" /\ i' = n ELSE pc' = pc /\ i' = i + 1
    /\ UNCHANGED <<kind, n, p, u, x, y, T0, c, r, out>>

(* fp_addm_low(c, a + n, a): high half + deferred carries, conditional subtraction *)
RdcbFin ==
    /\ pc = "rdcbfin"
    /\ LET hi == [j \in 0..(n - 1) |-> t[j + n]]
           lo == [j \in 0..(n - 1) |-> t[j]]
           s  == AddN(hi, lo, n)
           c2 == CondSub(s[1], s[2])
       IN  c' = c2 /\ out' = Val(c2, n)
    /\ pc' = "done"
    /\ UNCHANGED <<kind, n, p, u, x, y, T0, t, r, i, ovf>>

Arith ==
    /\ pc = "arith"
    /\ LET res ==
             CASE kind = "add"  -> LET s == AddN(X, Y, n) IN CondSub(s[1], s[2])
               [] kind = "sub"  -> LET s == SubN(X, Y, n) IN IF s[2] # 0 THEN AddN(s[1], M, n)[1] ELSE s[1]
               [] kind = "neg"  -> IF x = 0 THEN ToArr(0, n) ELSE SubN(M, X, n)[1]
               [] kind = "dbl"  -> LET s == AddN(X, X, n) IN CondSub(s[1], s[2])
               [] kind = "dblb" -> LET s == Lsh1R(X, 0, 0) IN CondSub(s[1], s[2])
               [] kind = "hlv"  -> LET s == IF X[0] % 2 = 1 THEN AddN(X, M, n) ELSE <<X, 0>>
                                       h == Rsh1R(s[1], n - 1, 0)
                                   IN  IF s[2] # 0 THEN XorTop(h) ELSE h
       IN  c' = res /\ out' = Val(res, n)
    /\ pc' = "done"
    /\ UNCHANGED <<kind, n, p, u, x, y, T0, t, r, i, ovf>>

Next == MulnCol \/ MulbRow \/ Rdcn1 \/ Rdcn2 \/ Rdcn3 \/ RdcbRow \/ RdcbFin \/ Arith
Spec == Init /\ [][Next]_vars

(***************************************************************************)
(* Properties                                                              *)
(***************************************************************************)
TypeOK == /\ \A j \in DOMAIN t : t[j] \in 0..(Bs - 1)
          /\ \A j \in DOMAIN c : c[j] \in 0..(Bs - 1)
          /\ DOMAIN c = 0..(n - 1) /\ DOMAIN t = 0..(2 * n - 1)
          /\ r[1] \in 0..(Bs - 1) /\ r[2] \in 0..(Bs - 1) /\ r[3] \in 0..(Bs - 1)
(* no carry is lost: the triple register, the row carries and the exact cancellation of low digits *)
NoOverflow == ~ovf
(* the product phase is exact *)
ProductExact == (pc \in {"rdcn1", "rdcb"} /\ i = 0) => Val(t, 2 * n) = T0
(* row-wise reduction: what has been added is a multiple of p, the low digits are spent *)
RdcbInv == pc \in {"rdcb", "rdcbfin"} =>
              LET live == [j \in 0..(2 * n - 1) |-> IF j >= i THEN t[j] ELSE 0]
                  defer == [j \in 0..(n - 1) |-> IF j < i THEN t[j] ELSE 0]
                  v == Val(live, 2 * n) + Pow(Bs, n) * Val(defer, n)
              IN  v % p = T0 % p /\ v % Pow(Bs, i) = 0 /\ v < 2 * p * R
Expected ==
    CASE kind \in {"mulc", "mulb", "rdcc", "rdcb"} -> 0 - 1        \* by relation, below
      [] kind = "add" -> (x + y) % p
      [] kind = "sub" -> (x + p - y) % p
      [] kind = "neg" -> (p - x) % p
      [] kind \in {"dbl", "dblb"} -> (2 * x) % p
      [] kind = "hlv" -> IF x % 2 = 0 THEN x \div 2 ELSE (x + p) \div 2
(* canonical range and value of every result *)
Correct == pc = "done" =>
              /\ out >= 0 /\ out < p                                \* fully reduced
              /\ out = Val(c, n)
              /\ IF kind \in {"mulc", "mulb", "rdcc", "rdcb"}
                 THEN (out * R) % p = T0 % p                         \* out = T0 * R^-1 mod p
                 ELSE out = Expected
              /\ (kind = "hlv" => (2 * out) % p = x)
=============================================================================
