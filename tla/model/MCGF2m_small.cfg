CONSTANT Polys = {11, 19, 37}
CONSTANT IrrMax = 300
INIT Init
NEXT Next
INVARIANT Correct
CHECK_DEADLOCK FALSE
