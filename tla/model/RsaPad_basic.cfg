SPECIFICATION Spec
CONSTANTS
    Ks = {6, 7}
    Id <- IdNone
    MinPS = 0
    Scheme = "basic"
INVARIANTS AcceptsCanonical AcceptsOnlyCanonical
CHECK_DEADLOCK FALSE
