------------------------------- MODULE PcSpec -------------------------------
(***************************************************************************)
(* The three pairing groups G1, G2, GT of RELIC (the pc module) at the     *)
(* level of one public call (C12).                                         *)
(*                                                                         *)
(* Validity.  An element is valid iff it is not the identity, lies on the  *)
(* curve (G1: y^2 = x^3 + ax + b over F_p, lib/Curve; G2: the twist over   *)
(* F_p2, lib/CurveX) resp. in the cyclotomic subgroup of F_p12^* (GT), and *)
(* is annihilated by the group order r:  [r]x = identity, evaluated by the *)
(* DEFINITION (double-and-add / square-and-multiply, balanced recursion of *)
(* model/CurveXB) - the per-family endomorphism equations the library uses *)
(* instead are not specified, only their verdict.  Operands are given in   *)
(* affine form or in the build's projective system (the routines multiply  *)
(* and add them with the build's formulas).                                *)
(* For GT: the elements of F_p12^* with x^r = 1 form THE subgroup of order *)
(* r of a cyclic group; it lies in the cyclotomic subgroup (the elements   *)
(* with x^Phi12(p) = 1, Phi12(p) = p^4 - p^2 + 1) iff r divides Phi12(p),  *)
(* which the spec checks per event; so "cyclotomic and x^r = 1" is decided *)
(* by x^r = 1 alone (and by both powers when r does not divide Phi12(p)).  *)
(* Events flagged full = 1 also evaluate x^Phi12(p) and check the class    *)
(* the generator intended (cls): the test inputs are what they claim.      *)
(*                                                                         *)
(* Exponentiation.  Every g1_mul / g2_mul / gt_exp form returns the k-fold *)
(* group operation of its operand: [k]P (negative k: the inverse), x^k in  *)
(* F_p12 = F_p2[v]/(v^3 - vcu)[w]/(w^2 - wsq) by lib/Tower's generic       *)
(* quotient-ring arithmetic; the tower constants are the ones the library's*)
(* own multiplication reveals (usq = u^2, vcu = v^3, wsq = w^2).           *)
(* Event fields: harness/drv_pc.c.                                         *)
(***************************************************************************)
EXTENDS Ep2Spec

(* ---- G1 ---- *)
Crv1(e) == [p |-> FPrime(e), a |-> FAbs(e, e.ca), b |-> FAbs(e, e.cb)]
Rep1Ok(e, P, sys) == /\ ValidTag(P) /\ PCanon(e, P) /\ P.c \in {1, sys}
                     /\ (P.c = 1 => FAbs(e, P.z) \in {<<>>, <<1>>})
Ret1(e, X) == Ok(e) /\ ValidTag(e.R) /\ PCanon(e, e.R) /\ PEq(PAbs(e, e.R), X)
KP1(e, k, P) == PMulSB(KNeg(k), BNorm(k.d), PAbs(e, P), Crv1(e))
RECURSIVE Sum1Seq(_, _)
Sum1Seq(e, sums) ==
    IF Len(sums) > Len(e.ps) THEN sums
    ELSE LET i == Len(sums) IN Sum1Seq(e, Append(sums, PAdd(sums[i], KP1(e, e.ks[i], e.ps[i]), Crv1(e))))
Sum1(e) == LET s == Sum1Seq(e, <<PInf>>) IN s[Len(s)]
G1Valid(e, P) ==
    LET X == PAbs(e, P) IN ~X.inf /\ OnCurve(X, Crv1(e)) /\ PMulB(BNorm(e.n.d), X, Crv1(e)).inf

(* ---- G2 ---- *)
G2Valid(e, cx, P) ==
    LET X == X2Abs(cx, P) IN ~X.inf /\ XOnCurve(X, cx.c) /\ XMulB(BNorm(e.n.d), X, cx.c).inf

(* ---- GT ---- *)
F6A(cx, r) == <<F2A(cx, r[1]), F2A(cx, r[2]), F2A(cx, r[3])>>
F12A(cx, r) == <<F6A(cx, r[1]), F6A(cx, r[2])>>
F6Canon(e, r) == Len(r) = 3 /\ \A i \in 1..3 : F2Canon(e, r[i])
F12Canon(e, r) == Len(r) = 2 /\ F6Canon(e, r[1]) /\ F6Canon(e, r[2])
Z6 == <<Z2, Z2, Z2>>
T12Of(e, cx) == [p |-> cx.p, lv |-> <<cx.T.lv[1], [deg |-> 3, nr |-> F2A(cx, e.vcu[1])],
                                      [deg |-> 2, nr |-> F6A(cx, e.wsq[1])]>>]
(* v^3 lies in F_p2 and w^2 in F_p6: the tower is F_p2[v]/(v^3 - vcu_0)[w]/(w^2 - wsq_0) *)
Tower12Ok(e, cx) == /\ TowerOk(e)
                    /\ F2A(cx, e.vcu[2]) = Z2 /\ F2A(cx, e.vcu[3]) = Z2 /\ F2A(cx, e.vcu[1]) # Z2
                    /\ F6A(cx, e.wsq[2]) = Z6 /\ F6A(cx, e.wsq[1]) # Z6
Phi12(p) == LET p2 == BMul(p, p) IN BAdd(BSub(BMul(p2, p2), p2), <<1>>)
GtValid(e, cx, x) ==
    LET T   == T12Of(e, cx)
        one == TOne(T, 3)
        r   == BNorm(e.n.d)
        ph  == Phi12(cx.p)
    IN  /\ x # one
        /\ (IF BMod(ph, r) = <<>> THEN TRUE ELSE TPowB(T, 3, x, ph) = one)
        /\ TPowB(T, 3, x, r) = one
(* the class the generator intended, decided by the definition (events flagged full) *)
GtClassOk(e, cx, x) ==
    LET T   == T12Of(e, cx)
        one == TOne(T, 3)
        cyc == TPowB(T, 3, x, Phi12(cx.p)) = one
        ann == TPowB(T, 3, x, BNorm(e.n.d)) = one
    IN  CASE e.cls = "member" -> cyc /\ ann /\ x # one
          [] e.cls = "cyc"    -> cyc /\ ~ann
          [] e.cls = "noncyc" -> ~cyc
          [] e.cls = "one"    -> x = one
          [] e.cls = "zero"   -> x = TZero(T, 3)
          [] OTHER -> FALSE
RetGt(e, cx, X) == Ok(e) /\ F12Canon(e, e.R) /\ F12A(cx, e.R) = X
KPow(e, cx, x, k) == TPowSB(T12Of(e, cx), 3, x, KNeg(k), BNorm(k.d))

Mul1Ops == {"g1_mul", "g1_mul_sec", "g1_mul_any", "g1_mul_gen", "g1_mul_fix"}
Mul2Ops == {"g2_mul", "g2_mul_sec", "g2_mul_any", "g2_mul_gen", "g2_mul_fix"}

PcAccept(e) ==
    IF e.op \in {"curve_probe", "restart"} THEN TRUE
    ELSE IF e.op = "BADCURVE" THEN FALSE
    ELSE
    LET cx == Cx(e)
        c  == cx.c
        c1 == Crv1(e)
    IN
    TowerOk(e) /\
    CASE e.op = "g1_is_valid" ->
            Rep1Ok(e, e.P, e.add) /\ Ok(e) /\ e.ret \in {0, 1} /\ ((e.ret = 1) <=> G1Valid(e, e.P))
      [] e.op = "g2_is_valid" ->
            RepOk(e, cx, e.P, e.add) /\ Ok(e) /\ e.ret \in {0, 1} /\ ((e.ret = 1) <=> G2Valid(e, cx, e.P))
      [] e.op = "gt_is_valid" ->
            /\ Tower12Ok(e, cx) /\ F12Canon(e, e.A) /\ Ok(e) /\ e.ret \in {0, 1}
            /\ ((e.ret = 1) <=> GtValid(e, cx, F12A(cx, e.A)))
            /\ (e.full = 1 => GtClassOk(e, cx, F12A(cx, e.A)))
      [] e.op \in Mul1Ops ->
            Rep1Ok(e, e.P, e.add) /\ OnCurve(PAbs(e, e.P), c1) /\ Ret1(e, KP1(e, e.k, e.P))
      [] e.op = "g1_mul_dig" ->
            /\ Rep1Ok(e, e.P, e.add) /\ OnCurve(PAbs(e, e.P), c1)
            /\ Ret1(e, PMulB(BNorm(e.dg), PAbs(e, e.P), c1))
      [] e.op \in {"g1_mul_sim", "g1_mul_sim_gen"} ->
            /\ Rep1Ok(e, e.P, e.add) /\ Rep1Ok(e, e.Q, e.add)
            /\ OnCurve(PAbs(e, e.P), c1) /\ OnCurve(PAbs(e, e.Q), c1)
            /\ Ret1(e, PAdd(KP1(e, e.k, e.P), KP1(e, e.m, e.Q), c1))
      [] e.op \in {"g1_mul_sim_lot", "g1_mul_sim_dig"} ->
            /\ Len(e.ps) = e.cnt /\ Len(e.ks) = e.cnt
            /\ \A i \in 1..Len(e.ps) : Rep1Ok(e, e.ps[i], e.add) /\ OnCurve(PAbs(e, e.ps[i]), c1)
            /\ Ret1(e, Sum1(e))
      [] e.op \in Mul2Ops ->
            RepOk(e, cx, e.P, e.add) /\ OnC(cx, e.P) /\ RetPoint(e, cx, KP(cx, e.k, e.P))
      [] e.op = "g2_mul_dig" ->
            /\ RepOk(e, cx, e.P, e.add) /\ OnC(cx, e.P)
            /\ RetPoint(e, cx, XMulB(BNorm(e.dg), X2Abs(cx, e.P), c))
      [] e.op \in {"g2_mul_sim", "g2_mul_sim_gen"} ->
            /\ RepOk(e, cx, e.P, e.add) /\ RepOk(e, cx, e.Q, e.add) /\ OnC(cx, e.P) /\ OnC(cx, e.Q)
            /\ RetPoint(e, cx, XAdd(KP(cx, e.k, e.P), KP(cx, e.m, e.Q), c))
      [] e.op \in {"g2_mul_sim_lot", "g2_mul_sim_dig"} ->
            /\ Len(e.ps) = e.cnt /\ Len(e.ks) = e.cnt
            /\ \A i \in 1..Len(e.ps) : RepOk(e, cx, e.ps[i], e.add) /\ OnC(cx, e.ps[i])
            /\ RetPoint(e, cx, SumKP(e, cx))
      [] e.op \in {"gt_exp", "gt_exp_sec", "gt_exp_gen"} ->
            /\ Tower12Ok(e, cx) /\ F12Canon(e, e.A)
            /\ RetGt(e, cx, KPow(e, cx, F12A(cx, e.A), e.k))
      [] e.op = "gt_exp_dig" ->
            /\ Tower12Ok(e, cx) /\ F12Canon(e, e.A)
            /\ RetGt(e, cx, TPowB(T12Of(e, cx), 3, F12A(cx, e.A), BNorm(e.dg)))
      [] e.op = "gt_exp_sim" ->
            /\ Tower12Ok(e, cx) /\ F12Canon(e, e.A) /\ F12Canon(e, e.C)
            /\ RetGt(e, cx, TMul(T12Of(e, cx), 3, KPow(e, cx, F12A(cx, e.A), e.k), KPow(e, cx, F12A(cx, e.C), e.m)))
      [] OTHER -> FALSE

(***************************************************************************)
(* Known findings (/verif/known_findings.json).                            *)
(*                                                                         *)
(* C12-gtvalid-zero: gt_is_valid applied to 0 (an element of F_p12 that is *)
(* not even in the multiplicative group) does not answer "invalid": the BN *)
(* branch raises an error from an inversion of zero inside the cyclotomic  *)
(* exponentiation; a branch that only evaluates Frobenius relations        *)
(* (0 = 0) answers "valid".                                                *)
(***************************************************************************)
PcKnownKey(e) ==
    IF e.op # "gt_is_valid" \/ ~TowerOk(e) THEN ""
    ELSE
    LET cx == Cx(e) IN
    CASE /\ Tower12Ok(e, cx) /\ F12Canon(e, e.A) /\ F12A(cx, e.A) = TZero(T12Of(e, cx), 3)
         /\ e.crash = 0
         /\ \/ (e.err # 0 /\ e.code = 1)
            \/ (e.err = 0 /\ e.code = 0 /\ e.ret = 1)
            -> "C12-gtvalid-zero"
      [] OTHER -> ""
=============================================================================
