------------------------------ MODULE MCCodecX ------------------------------
(***************************************************************************)
(* The format definitions of model/CodecX checked in a tiny tower          *)
(* F_p12 = F_p2[v]/(v^3 - xi)[w]/(w^2 - v), F_p2 = F_p[u]/(u^2 + nq),       *)
(* xi = qnr2 + u, one byte per coefficient (fb = 1):                        *)
(*  "cyc"  EVERY element x of the cyclotomic subgroup (the powers g^k,    *)
(*         k < Phi_12(p), of a g of that order): Dec(Enc(x, packed)) = x, the packed  *)
(*         string has the advertised length 8 fb, the full one 12 fb;       *)
(*         Dec completes x from its four kept coefficients by Karabina's    *)
(*         formulas and finds it in the subgroup (so a packed string that   *)
(*         denotes a cyclotomic element is accepted: Dec rejects only       *)
(*         strings that denote none);                                       *)
(*         g2 = g3 = 0 only for x = 1                                       *)
(*  "str"  packed strings over a byte alphabet (incl. p, 255): accepted =>  *)
(*         the value is in the subgroup, re-encodes to the string, has the  *)
(*         advertised size; a coefficient >= p => refused                   *)
(*  "any"  a lattice of arbitrary elements: outside the subgroup the only   *)
(*         form is the full one; Dec(Enc(x, pack)) = x; every other length  *)
(*         is refused                                                        *)
(***************************************************************************)
EXTENDS CodecX, Integers, FiniteSets, TLC
CONSTANTS p, nq, qnr2, phases, alpha, chunk
VARIABLES ph, x, gg, cnt

P == BFromNat(p)
B(n) == BFromNat(n % p)
T2 == [p |-> P, lv |-> <<[deg |-> 2, nr |-> B(p - nq)]>>]
T6 == [p |-> P, lv |-> T2.lv \o <<[deg |-> 3, nr |-> <<B(qnr2), <<1>>>>]>>]
T12 == [p |-> P, lv |-> T6.lv \o <<[deg |-> 2, nr |-> <<TZero(T6, 1), TOne(T6, 1), TZero(T6, 1)>>]>>]
ASSUME TLevelIsField(T12, 1) /\ TLevelIsField(T12, 2) /\ TLevelIsField(T12, 3)
One12 == TOne(T12, 3)
Phi == p * p * p * p - p * p + 1
Cyc(y) == y # TZero(T12, 3) /\ TExp(T12, 3, y, BFromNat(Phi)) = One12
ToCyc(y) == TExp(T12, 3, y, BMul(BSub(BPow(P, 6), <<1>>), BAdd(BPow(P, 2), <<1>>)))
RECURSIVE PrimeFactors(_, _)
PrimeFactors(n, d) == IF n = 1 THEN {} ELSE IF d * d > n THEN {n}
                      ELSE IF n % d = 0 THEN {d} \cup PrimeFactors(n \div d, d) ELSE PrimeFactors(n, d + 1)
FullOrder(g) == Cyc(g) /\ \A f \in PrimeFactors(Phi, 2) : TExp(T12, 3, g, BFromNat(Phi \div f)) # One12
El0 == {BFromNat(n) : n \in 0..(p - 1)}
Small2 == {<<a, b>> : a \in {<<>>, <<1>>, B(p - 1)}, b \in {<<>>, <<1>>, <<2>>}}
Small6 == {<<a, b, c>> : a \in Small2, b \in {<<<<>>, <<>>>>, <<<<1>>, <<3>>>>}, c \in {<<<<>>, <<1>>>>, <<<<2>>, <<>>>>}}
Cand6 == {<<<<<<1>>, <<2>>>>, <<<<>>, <<1>>>>, <<<<3>>, <<>>>>>>, <<<<<<2>>, <<>>>>, <<<<1>>, <<1>>>>, <<<<>>, <<5>>>>>>}
Gen == CHOOSE g \in {ToCyc(<<c, d>>) : c \in Cand6, d \in Cand6} : FullOrder(g)
(* arbitrary elements: a lattice that contains 0, 1, subfield elements and elements with every block non-zero *)
Lat12 == {<<c, d>> : c \in Small6, d \in {<<<<<<>>, <<>>>>, <<<<>>, <<>>>>, <<<<>>, <<>>>>>>, <<<<<<1>>, <<>>>>, <<<<>>, <<2>>>>, <<B(p - 1), <<3>>>>>>}}

Flat(y) == TFlat(T12, 3, y)
(* packed strings: 8 bytes over the alphabet, the two bytes of g2 (z^1: storage block 3 = kept block 2) free *)
Strs == {<<a, b, 0, 0, c, d, e, 0>> : a \in alpha, b \in alpha, c \in alpha, d \in alpha, e \in alpha}
        \cup {<<0, 0, a, b, 0, 0, c, d>> : a \in alpha, b \in alpha, c \in alpha, d \in alpha}

CheckCyc(y) ==
    LET f  == Flat(y)
        sp == XEnc(f, 12, TRUE, TRUE, 1)
        sf == XEnc(f, 12, FALSE, TRUE, 1)
        kc == XKeptCoefs(f, 12, "q3")
    IN  /\ Len(sp) = 8 /\ Len(sp) = XSize(12, TRUE, TRUE, 1)
        /\ Len(sf) = 12 /\ Len(sf) = XSize(12, FALSE, TRUE, 1)
        /\ XDec(sp, T12, 12, 1, Cyc) = XOk(f)
        /\ XDec(sf, T12, 12, 1, Cyc) = XOk(f)
        \* the kept coefficients are c_1, c_2, c_4, c_5 of a = sum c_k z^k, z = w
        /\ kc = <<f[3], f[4], f[5], f[6], f[7], f[8], f[11], f[12]>>
        /\ (XAllZero(XKeptBlock(kc, 2, "q3", 1)) /\ XAllZero(XKeptBlock(kc, 2, "q3", 4)) => y = One12)
CheckStr(s) ==
    LET d == XDec(s, T12, 12, 1, Cyc) IN
    /\ ((\E i \in 1..Len(s) : s[i] >= p) => ~d.ok)
    /\ (d.ok => LET y == TUnflat(T12, 3, d.v) IN
                /\ InTower(T12, 3, y) /\ Cyc(y)
                /\ XEnc(d.v, 12, TRUE, TRUE, 1) = s
                /\ XSize(12, TRUE, Cyc(y), 1) = Len(s))
CheckAny(y) ==
    LET f == Flat(y)
        c == Cyc(y) IN
    /\ \A pk \in BOOLEAN :
          LET s == XEnc(f, 12, pk, c, 1) IN
          /\ Len(s) = XSize(12, pk, c, 1)
          /\ (~c => Len(s) = 12)
          /\ XDec(s, T12, 12, 1, Cyc) = XOk(f)
          /\ \A k \in {0, 1, 7, 9, 11, 13} : ~XDec(SubSeq(s \o s, 1, k), T12, 12, 1, Cyc).ok
    /\ XKind(8) = "none" /\ XSize(8, TRUE, TRUE, 1) = 8

(* "cyc": gg has order Phi (FullOrder), so its powers are the whole subgroup.  The walk x -> x * gg is cut *)
(* into NCh chains of `chunk` elements starting at gg^(j * chunk), so that TLC's workers share it; the   *)
(* strings / lattice points become states by one step of Next for the same reason.                      *)
NCh == (Phi + chunk - 1) \div chunk
Init == \/ ph = "cyc" /\ ph \in phases /\ gg = Gen /\ cnt = 0
           /\ \E j \in 0..(NCh - 1) : x = TExp(T12, 3, Gen, BFromNat(j * chunk))
        \/ ph = "str0" /\ "str" \in phases /\ x \in Strs /\ gg = <<>> /\ cnt = 0
        \/ ph = "any0" /\ "any" \in phases /\ x \in Lat12 /\ gg = <<>> /\ cnt = 0
Next == \/ ph = "cyc" /\ cnt < chunk - 1 /\ ph' = ph /\ gg' = gg /\ cnt' = cnt + 1 /\ x' = TMul(T12, 3, x, gg)
        \/ ph = "str0" /\ ph' = "str" /\ gg' = gg /\ x' = x /\ cnt' = cnt
        \/ ph = "any0" /\ ph' = "any" /\ gg' = gg /\ x' = x /\ cnt' = cnt
Spec == Init /\ [][Next]_<<ph, x, gg, cnt>>
Check == CASE ph = "cyc" -> CheckCyc(x)
           [] ph = "str" -> CheckStr(x)
           [] ph = "any" -> CheckAny(x)
           [] OTHER -> TRUE
(* NCh * chunk >= Phi states of phase "cyc", pairwise distinct elements up to the overlap of the last chain *)
=============================================================================
