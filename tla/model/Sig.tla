--------------------------------- MODULE Sig ---------------------------------
(***************************************************************************)
(* C05 design-level model: ECDSA and the EC-Schnorr variant of RELIC over  *)
(* an abstract cyclic group of prime order n (n in Orders).  The group     *)
(* element [k]G is represented by its logarithm k in 0..n-1 (0 = the       *)
(* identity), so the verification equations can be decided exactly; the    *)
(* x-coordinate is an abstract map XC with XC(k) = XC(-k), injective on    *)
(* the classes {k, -k} and with values on both sides of n, so that the     *)
(* reduction "x mod n" (incl. the retry case r = 0) is exercised.          *)
(*                                                                         *)
(* Two things are written down independently:                              *)
(*   Def...    the scheme's definition (FIPS 186-4 6.4; Schnorr as         *)
(*             documented in cp_ecss_sig + BSI TR-03111 validity clauses)  *)
(*   Coded...  the acceptance procedure exactly as coded in cp_ecdsa_ver / *)
(*             cp_ecss_ver: sign tests, zero tests, "< n" tests,           *)
(*             ec_on_curve (TRUE for the identity!), the final comparison, *)
(*             ec_is_infty(result); switches model guards that the code    *)
(*             does NOT have (FALSE = as coded):                           *)
(*               GuardIdentity  reject the identity as public key          *)
(*               GuardOnCurveSS cp_ecss_ver checks the key is on the curve *)
(*               GuardCommit    cp_ecss_ver rejects [s]G + [e]Q = O        *)
(*               RetryS0        cp_ecss_sig retries when s = 0             *)
(* TLC enumerates EVERY key, nonce, digest / message, every candidate pair *)
(* (r, s) in -1..2n (negative, zero, in range, = n, > n) and every kind of *)
(* public-key object (point, identity, off-curve), and checks              *)
(*   Complete           signatures of the coded signer verify (both)       *)
(*   CodedIsDefinition  the coded verifier accepts EXACTLY the definition  *)
(*   Malleable          ECDSA's (r, n-s) is valid whenever (r, s) is       *)
(* Sig.cfg (guards on = repaired) must pass; Sig_ascoded.cfg (all          *)
(* switches FALSE) must fail CodedIsDefinition with the identity-key       *)
(* counterexample (non-vacuity; the defect the conformance run confirms).  *)
(***************************************************************************)
EXTENDS Integers, TLC

CONSTANTS Orders, GuardIdentity, GuardOnCurveSS, GuardCommit, RetryS0

Min(a, b) == IF a <= b THEN a ELSE b
(* abstract x-coordinate of [k]G, k # 0: n+2, n, n-2, ... for the classes {k,-k} = 1, 2, 3, ... *)
XC(n, k) == n + 2 - 2 * (Min(k, n - k) - 1)
Inv(a, n) == CHOOSE b \in 1..(n - 1) : (a * b) % n = 1
(* abstract hash of (message, I2OSP(r)) into 0..n-1 *)
Hh(n, m, r) == (3 * m + 2 * r + 1) % n

(* public-key objects: a point [k]G with k # 0, the identity, an off-curve pair *)
Keys(n) == [kind : {"pt"}, k : 1..(n - 1)] \cup {[kind |-> "inf", k |-> 0], [kind |-> "off", k |-> 0]}
OnCurveCoded(Q) == Q.kind # "off"            \* ec_on_curve: the identity is "on the curve"

(* ------------------------------------------------------------------ ECDSA *)
(* z = integer derived from the digest (not reduced: 0..2n-1) *)
EcdsaSign(n, d, k, z) ==
    LET r == XC(n, k) % n
        s == (Inv(k, n) * (z + d * r)) % n
    IN  IF r = 0 \/ s = 0 THEN [retry |-> TRUE, r |-> 0, s |-> 0] ELSE [retry |-> FALSE, r |-> r, s |-> s]

DefEcdsa(n, Q, z, r, s) ==
    /\ r \in 1..(n - 1) /\ s \in 1..(n - 1)
    /\ Q.kind = "pt"
    /\ LET w == Inv(s, n)
           R == (((z * w) % n) + ((r * w) % n) * Q.k) % n
       IN  R # 0 /\ XC(n, R) % n = r

CodedEcdsa(n, Q, z, r, s) ==
    /\ r >= 0 /\ s >= 0                      \* bn_sign(r) == RLC_POS && bn_sign(s) == RLC_POS
    /\ r # 0 /\ s # 0                        \* !bn_is_zero(r) && !bn_is_zero(s)
    /\ OnCurveCoded(Q)                       \* ec_on_curve(q)
    /\ (GuardIdentity => Q.kind # "inf")
    /\ r < n /\ s < n                        \* bn_cmp(r, n) == RLC_LT && bn_cmp(s, n) == RLC_LT
    /\ LET k == Inv(s, n)
           e == (z * k) % n
           v == (r * k) % n
           p == (e + v * Q.k) % n            \* ec_mul_sim_gen(p, e, q, v); the identity has logarithm 0
       IN  IF p = 0 THEN FALSE               \* ec_is_infty(p)
           ELSE XC(n, p) % n = r             \* dv_cmp_sec + used comparison

(* ------------------------------------------------------------- EC-Schnorr *)
EcssSign(n, d, k, m) ==
    LET r == XC(n, k) % n
        e == Hh(n, m, r)
        s == (k + n * n - d * e) % n
    IN  IF r = 0 \/ (RetryS0 /\ s = 0) THEN [retry |-> TRUE, e |-> 0, s |-> 0] ELSE [retry |-> FALSE, e |-> e, s |-> s]

DefEcss(n, Q, m, e, s) ==
    /\ e \in 0..(n - 1) /\ s \in 1..(n - 1)
    /\ Q.kind = "pt"
    /\ LET R == (s + e * Q.k) % n
       IN  R # 0 /\ Hh(n, m, XC(n, R) % n) = e

(* junk = what the arithmetic produces from an off-curve pair (anything) *)
CodedEcss(n, Q, m, e, s, junk) ==
    /\ e >= 0 /\ s >= 0 /\ s # 0             \* bn_sign(e), bn_sign(s) == RLC_POS, !bn_is_zero(s)
    /\ e < n /\ s < n
    /\ (GuardIdentity => Q.kind # "inf")
    /\ (GuardOnCurveSS => Q.kind # "off")
    /\ LET p == IF Q.kind = "off" THEN junk ELSE (s + e * Q.k) % n
           rv == IF p = 0 THEN 0 ELSE XC(n, p) % n      \* ec_get_x of the identity reads 0
       IN  (GuardCommit => p # 0) /\ Hh(n, m, rv) = e

(* ------------------------------------------------------------------ cases *)
VARIABLE c
Cases ==
    UNION {
        [t : {"ecdsa_sign"}, n : {n}, d : 1..(n - 1), k : 1..(n - 1), z : 0..(2 * n - 1)]
        \cup [t : {"ecdsa_ver"}, n : {n}, Q : Keys(n), z : 0..(2 * n - 1), r : (0 - 1)..(2 * n), s : (0 - 1)..(2 * n)]
        \cup [t : {"ecss_sign"}, n : {n}, d : 1..(n - 1), k : 1..(n - 1), m : 0..2]
        \cup [t : {"ecss_ver"}, n : {n}, Q : Keys(n), m : 0..2, e : (0 - 1)..(n + 1), s : (0 - 1)..(n + 1), junk : 0..(n - 1)]
        : n \in Orders }

Init == c \in Cases
Next == UNCHANGED c
Spec == Init /\ [][Next]_c

Complete ==
    CASE c.t = "ecdsa_sign" ->
            LET sg == EcdsaSign(c.n, c.d, c.k, c.z)  Q == [kind |-> "pt", k |-> c.d] IN
            sg.retry \/ (DefEcdsa(c.n, Q, c.z, sg.r, sg.s) /\ CodedEcdsa(c.n, Q, c.z, sg.r, sg.s))
      [] c.t = "ecss_sign" ->
            LET sg == EcssSign(c.n, c.d, c.k, c.m)  Q == [kind |-> "pt", k |-> c.d] IN
            sg.retry \/ (DefEcss(c.n, Q, c.m, sg.e, sg.s) /\ CodedEcss(c.n, Q, c.m, sg.e, sg.s, 0))
      [] OTHER -> TRUE

CodedIsDefinition ==
    CASE c.t = "ecdsa_ver" -> CodedEcdsa(c.n, c.Q, c.z, c.r, c.s) = DefEcdsa(c.n, c.Q, c.z, c.r, c.s)
      [] c.t = "ecss_ver"  -> (c.Q.kind # "off" => c.junk = 0) =>
                              CodedEcss(c.n, c.Q, c.m, c.e, c.s, c.junk) = DefEcss(c.n, c.Q, c.m, c.e, c.s)
      [] OTHER -> TRUE
EcdsaCodedIsDefinition == c.t = "ecdsa_ver" => CodedIsDefinition
EcssCodedIsDefinition  == c.t = "ecss_ver" => CodedIsDefinition

Malleable ==
    c.t = "ecdsa_ver" /\ DefEcdsa(c.n, c.Q, c.z, c.r, c.s) => DefEcdsa(c.n, c.Q, c.z, c.r, c.n - c.s)

(* non-vacuity of the enumeration: accepted triples, valid mutants and retry cases all occur *)
SomeAccepted == ~(c.t = "ecdsa_ver" /\ DefEcdsa(c.n, c.Q, c.z, c.r, c.s))
=============================================================================
