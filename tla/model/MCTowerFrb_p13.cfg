CONSTANTS p = 13
 nq = 2
 qnr2 = 0
 cnr = 2
SPECIFICATION Spec
INVARIANT Check
CHECK_DEADLOCK FALSE
