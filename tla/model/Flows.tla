-------------------------------- MODULE Flows --------------------------------
(***************************************************************************)
(* C06 design-level model of the interactive protocols as MESSAGE FLOWS    *)
(* over an abstract bilinear triple: G1 = G2 = GT = Z_R written additively *)
(* (an element is its discrete logarithm), e(a, b) = a b mod R.            *)
(*                                                                         *)
(* Delegated pairing (relic_cp_pcdel.c), client steps exactly as coded:    *)
(*   pdpub / lvpub  public inputs P, Q (the helper sees them)              *)
(*   pdprv / lvprv  private inputs (the helper sees blinded points only)   *)
(* The helper answers honestly except that it may replace ONE element of   *)
(* its response by an arbitrary other value (dev = <<index, delta>>).      *)
(* Checked for every P, Q, every client secret and every deviation:        *)
(*   Sound     the client outputs e(P, Q) or rejects                       *)
(*   Complete  an honest helper is never rejected                          *)
(* The challenge c is non-zero mod R here; the code draws 50 random bits   *)
(* (c = 0 mod r has probability 2^-50).  A helper that changes SEVERAL     *)
(* elements consistently must guess c - outside an explicit-state model.   *)
(*                                                                         *)
(* Pairing-based set intersection (relic_cp_pbpsi.c), honest run: with     *)
(* the trapdoor s outside both sets the receiver outputs exactly X cap Y.  *)
(***************************************************************************)
EXTENDS Integers, FiniteSets, Sequences, TLC

CONSTANTS R, Protocols, BlindSet, SetSize

Z == 0..(R - 1)
Zs == 1..(R - 1)
M(a) == a % R
Inv(a) == CHOOSE x \in Zs : (a * x) % R = 1
REJECT == 0 - 1

VARIABLES proto, p, q, c, u1, u2, rr, dev
vars == <<proto, p, q, c, u1, u2, rr, dev>>

(* ------------------------------------------------ public inputs: pdpub, lvpub *)
(* gen: U1, U2 random, r random, V2 = [1/r]U2, gamma = e(U1, U2); ask: V1 = [r](P - U1), W2 = [c]Q + U2 *)
PubResp ==
    LET V1 == M(rr[1] * (p - u1[1]))
        V2 == M(u2[1] * Inv(rr[1]))
        W2 == M(c * q + u2[1])
    IN  IF proto = "pdpub"
        THEN <<M(p * q), M(p * W2), M(V1 * V2)>>                     \* g0 = e(P,Q), g1 = e(P,W2), g2 = e(V1,V2)
        ELSE <<M(p * q), M(p * W2 - V1 * V2)>>                       \* lvpub: g0, g1 = e(P,W2) e(V1,-V2)
(* private inputs: pdprv, lvprv *)
PrvResp ==
    LET v10 == M(rr[1] * (p - u1[1]))  v11 == M(rr[2] * (p - u1[2]))  v12 == M(p * Inv(rr[3]))
        v20 == M(u2[1] * Inv(rr[1]))   v21 == M(u2[2] * Inv(rr[2]))
        v22 == M(0 - u2[1] * rr[3])    v23 == M(u2[2] * rr[3])
        w0 == M(q * rr[3])
        w2 == M(w0 + v22)  w3 == M(w0 * c + v23)
    IN  IF proto = "pdprv"
        THEN <<M(v10 * v20), M(v11 * v21), M(v12 * w2), M(v12 * w3)>>
        ELSE <<M(v10 * v20 + v12 * w2), M(v11 * v21), M(v12 * w3)>>  \* lvprv
Honest == IF proto \in {"pdpub", "lvpub"} THEN PubResp ELSE PrvResp
(* the response the client receives: one element possibly replaced *)
Resp == IF dev[1] = 0 THEN Honest
        ELSE [i \in 1..Len(Honest) |-> IF i = dev[1] THEN M(Honest[i] + dev[2]) ELSE Honest[i]]
(* the client's verification, as coded; gamma_i = e(U1_i, U2_i) *)
Gam(i) == M(u1[i] * u2[i])
Output ==
    LET g == Resp IN
    CASE proto = "pdpub" -> IF M(c * g[1] + g[3] + Gam(1)) = g[2] THEN g[1] ELSE REJECT
      [] proto = "lvpub" -> IF M(g[2] - c * g[1]) = Gam(1) THEN g[1] ELSE REJECT
      [] proto = "pdprv" -> LET r0 == M(g[1] + g[3] + Gam(1)) IN
                            IF M(c * r0 + g[2] + Gam(2)) = g[4] THEN r0 ELSE REJECT
      [] proto = "lvprv" -> LET r0 == M(g[1] + Gam(1)) IN
                            IF M(c * r0 + g[2] + Gam(2)) = g[3] THEN r0 ELSE REJECT
NResp(pr) == CASE pr = "pdpub" -> 3 [] pr = "lvpub" -> 2 [] pr = "pdprv" -> 4 [] pr = "lvprv" -> 3 [] OTHER -> 0

(* ------------------------------------------------------------ pbpsi *)
(* p = X, q = Y (sets), c = trapdoor s, rr = <<r, t>> blinding, honest *)
RECURSIVE ProdS(_, _)
ProdS(S, s) == IF S = {} THEN 1 ELSE LET x == CHOOSE x \in S : TRUE IN M((s - x) * ProdS(S \ {x}, s))
PsiOutput ==
    LET s == c  r == rr[1]  t == rr[2]
        d0 == M(r * ProdS(p, s))
        dk(x) == M(r * ProdS(p \ {x}, s))
        tj == M(t * d0)                                              \* e([t]g1, d0)
        uj(y) == M(t * (s - y))                                      \* [t](ss - [y]g1)
    IN  {x \in p : \E y \in q : M(uj(y) * dk(x)) = tj /\ M(uj(y) * dk(x)) # 0}

Init ==
    /\ proto \in Protocols
    /\ IF proto = "pbpsi"
       THEN /\ p \in {S \in SUBSET Z : Cardinality(S) <= SetSize} /\ q \in {S \in SUBSET Z : Cardinality(S) <= SetSize}
            /\ c \in Z \ (p \cup q)
            /\ rr \in [1..2 -> Zs] /\ u1 = 0 /\ u2 = 0 /\ dev = <<0, 0>>
       ELSE /\ p \in Z /\ q \in Z /\ c \in Zs
            /\ IF proto \in {"pdpub", "lvpub"}
               THEN u1 \in [1..1 -> Z] /\ u2 \in [1..1 -> Z] /\ rr \in [1..1 -> Zs]
               ELSE u1 \in [1..2 -> BlindSet] /\ u2 \in [1..2 -> BlindSet] /\ rr \in [1..3 -> Zs]
            /\ dev \in {<<0, 0>>} \cup ((1..NResp(proto)) \X Zs)
Next == UNCHANGED vars
Spec == Init /\ [][Next]_vars

Sound == proto # "pbpsi" => Output \in {M(p * q), REJECT}
Complete == proto # "pbpsi" /\ dev[1] = 0 => Output = M(p * q)
Detects == proto # "pbpsi" /\ dev[1] # 0 => Output = REJECT
PsiExact == proto = "pbpsi" => PsiOutput = p \cap q
=============================================================================
