----------------------------- MODULE MCMdVectors -----------------------------
(***************************************************************************)
(* Checks of the transcribed standards (tla/lib) that are too heavy to be  *)
(* ASSUMEs of the library modules themselves (those are re-evaluated by    *)
(* every trace-validation shard): run once per check by TLC.               *)
(*  - the AES S-box table equals its FIPS 197 5.1.1 definition             *)
(*  - the RFC 7693 appendix E self-test of BLAKE2s (digest lengths 16, 20,  *)
(*    28, 32; inputs of 0..1024 bytes; keyed and unkeyed): pins BLAKE2s-160*)
(*  - the streaming machine ShaCtx with the real compression function      *)
(*    gives the one-shot functions (link between ShaStream and Sha2)       *)
(*  - AES-CBC/PKCS#7 decryption inverts encryption for all lengths 0..40   *)
(* All library ASSUMEs (published vectors) are evaluated as well.          *)
(***************************************************************************)
EXTENDS MdSpec, TLC

ASSUME \A a \in 0..255 : SBoxDef(a) = SBox(a)
ASSUME \A a \in 0..255 : InvSBox(SBox(a)) = a

(* RFC 7693 appendix E *)
SelfSeq(len, seed) ==
    LET lo == 19373 * seed                       \* 0x4BAD * seed
        hi == 57005 * seed                       \* 0xDEAD * seed
        a0 == <<(hi + lo \div 65536) % 65536, lo % 65536>>   \* 0xDEAD4BAD * seed mod 2^32
        step(acc, i) == LET t == WAdd(acc[1], acc[2]) IN <<acc[2], t, Append(acc[3], t[1] \div 256)>>
    IN Iter(step, <<a0, <<0, 1>>, <<>>>>, 1, len)[3]
SelfTestInput ==
    LET mdLen == <<16, 20, 28, 32>>
        inLen == <<0, 3, 64, 65, 255, 1024>>
        one(i, j) == LET in == SelfSeq(inLen[j], inLen[j])
                         key == SelfSeq(mdLen[i], mdLen[i])
                     IN Blake2s(in, <<>>, mdLen[i]) \o Blake2s(in, key, mdLen[i])
    IN Flatten([x \in 1..24 |-> one(((x - 1) \div 6) + 1, ((x - 1) % 6) + 1)])
ASSUME Blake2s256(SelfTestInput) =
    <<106, 65, 31, 8, 206, 37, 173, 205, 251, 2, 171, 166, 65, 69, 28, 236,
      83, 197, 152, 178, 79, 79, 199, 135, 251, 220, 136, 121, 127, 76, 29, 254>>

(* the context machine with the real compression = the one-shot function *)
Msg(n) == Eager([i \in 1..n |-> (11 * i + n) % 256])
Machine256(m, cut) ==
    LET P == [B |-> 64, LB |-> 4, M |-> 0]
        F(h, blk) == Compress(h, blk, 0, K256, 2)
        c1 == CtxInput(CtxReset(H256), SubSeq(m, 1, cut), P, F)[1]
        c2 == CtxInput(c1, SubSeq(m, cut + 1, Len(m)), P, F)[1]
    IN Digest(CtxResult(c2, P, F)[1].h, 32)
Machine512(m, cut) ==
    LET P == [B |-> 128, LB |-> 8, M |-> 0]
        F(h, blk) == Compress(h, blk, 0, K512, 4)
        c1 == CtxInput(CtxReset(H512), SubSeq(m, 1, cut), P, F)[1]
        c2 == CtxInput(c1, SubSeq(m, cut + 1, Len(m)), P, F)[1]
    IN Digest(CtxResult(c2, P, F)[1].h, 64)
ASSUME \A n \in {0, 1, 55, 56, 63, 64, 65, 119, 120, 130} :
          \A cut \in {0, n \div 2, n} : Machine256(Msg(n), cut) = Sha256(Msg(n))
ASSUME \A n \in {0, 111, 112, 127, 128, 129, 240} :
          \A cut \in {0, n \div 3, n} : Machine512(Msg(n), cut) = Sha512(Msg(n))

(* decryption inverts encryption; the ciphertext is one pad block longer   *)
ASSUME \A n \in 0..40 : \A k \in {AesKey128, AesKey192, AesKey256} :
          LET c == AesCbcPkcs7Enc(k, Msg(16), Msg(n))
              d == AesCbcPkcs7Dec(k, Msg(16), c)
          IN Len(c) = 16 * ((n \div 16) + 1) /\ d.ok /\ d.pt = Msg(n)

VARIABLE x
Init == x = 0
Next == x' = x
=============================================================================
