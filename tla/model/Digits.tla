------------------------------- MODULE Digits -------------------------------
(***************************************************************************)
(* The digit-vector primitives of src/low/easy/relic_bn_add_low.c,         *)
(* relic_bn_mul_low.c, relic_bn_sqr_low.c and relic_bn_shift_low.c         *)
(* transcribed with their carry idioms AS CODED (unsigned wrap-around      *)
(* arithmetic on W-bit digits, carries recovered by comparisons, the       *)
(* three-word Comba column accumulator), and checked against TLC's         *)
(* integers for every operand vector of up to MaxLen digits.  With W = 2   *)
(* every carry pattern that needs probability 2^-64 at the shipped width   *)
(* occurs in a sizeable share of the states.                               *)
(***************************************************************************)
EXTENDS Naturals, Integers, Sequences, TLC

CONSTANTS W, MaxLen
RECURSIVE Pow(_, _)
Pow(x, n) == IF n = 0 THEN 1 ELSE x * Pow(x, n - 1)
Bs == Pow(2, W)
Dig == 0..(Bs - 1)
M(x) == x % Bs                  \* dig_t wrap-around
Lt(x, y) == IF x < y THEN 1 ELSE 0

RECURSIVE ValR(_, _)
ValR(s, j) == IF j > Len(s) THEN 0 ELSE s[j] + Bs * ValR(s, j + 1)
Val(s) == ValR(s, 1)

(* ---- bn_addn_low: r0 = a+b; c0 = r0<a; r1 = r0+carry; c1 = r1<r0; carry = c0|c1 *)
RECURSIVE AddnR(_, _, _, _)
AddnR(a, b, j, carry) ==
    IF j > Len(a) THEN <<<<>>, carry>>
    ELSE LET r0 == M(a[j] + b[j])
             c0 == Lt(r0, a[j])
             r1 == M(r0 + carry)
             c1 == Lt(r1, r0)
             cy == IF c0 = 1 \/ c1 = 1 THEN 1 ELSE 0
             rest == AddnR(a, b, j + 1, cy)
         IN  <<<<r1>> \o rest[1], rest[2]>>
Addn(a, b) == AddnR(a, b, 1, 0)

(* ---- bn_subn_low: diff = a-b; r0 = diff-carry; carry = (a<b) || (carry && !diff) *)
RECURSIVE SubnR(_, _, _, _)
SubnR(a, b, j, carry) ==
    IF j > Len(a) THEN <<<<>>, carry>>
    ELSE LET diff == M(a[j] + Bs - b[j])
             r0   == M(diff + Bs - carry)
             cy   == IF a[j] < b[j] \/ (carry = 1 /\ diff = 0) THEN 1 ELSE 0
             rest == SubnR(a, b, j + 1, cy)
         IN  <<<<r0>> \o rest[1], rest[2]>>
Subn(a, b) == SubnR(a, b, 1, 0)

(* ---- bn_add1_low / bn_sub1_low: carry = digit; loop while carry *)
RECURSIVE Add1R(_, _, _)
Add1R(a, j, carry) ==
    IF j > Len(a) THEN <<<<>>, carry>>
    ELSE IF carry = 0 THEN <<SubSeq(a, j, Len(a)), 0>>
    ELSE LET r0 == M(a[j] + carry)
             rest == Add1R(a, j + 1, Lt(r0, carry))
         IN  <<<<r0>> \o rest[1], rest[2]>>
Add1(a, dg) == Add1R(a, 1, dg)
RECURSIVE Sub1R(_, _, _)
Sub1R(a, j, carry) ==
    IF j > Len(a) THEN <<<<>>, carry>>
    ELSE IF carry = 0 THEN <<SubSeq(a, j, Len(a)), 0>>
    ELSE LET r0 == M(a[j] + Bs - carry)
             rest == Sub1R(a, j + 1, IF r0 > a[j] THEN 1 ELSE 0)
         IN  <<<<r0>> \o rest[1], rest[2]>>
Sub1(a, dg) == Sub1R(a, 1, dg)

(* ---- RLC_MUL_DIG: double-width product split in (high, low) *)
MulHi(x, y) == (x * y) \div Bs
MulLo(x, y) == (x * y) % Bs

(* ---- bn_mul1_low: c = r0 + carry; carry = r1 + (c < carry) *)
RECURSIVE Mul1R(_, _, _, _)
Mul1R(a, dg, j, carry) ==
    IF j > Len(a) THEN <<<<>>, carry>>
    ELSE LET cj == M(MulLo(a[j], dg) + carry)
             cy == M(MulHi(a[j], dg) + Lt(cj, carry))
             rest == Mul1R(a, dg, j + 1, cy)
         IN  <<<<cj>> \o rest[1], rest[2]>>
Mul1(a, dg) == Mul1R(a, dg, 1, 0)

(* ---- bn_mula_low: _c = r0+carry; carry = r1+(_c<carry); c += _c; carry += (c<_c) *)
RECURSIVE MulaR(_, _, _, _, _)
MulaR(c, a, dg, j, carry) ==
    IF j > Len(a) THEN <<<<>>, carry>>
    ELSE LET t  == M(MulLo(a[j], dg) + carry)
             k1 == M(MulHi(a[j], dg) + Lt(t, carry))
             cj == M(c[j] + t)
             k2 == M(k1 + Lt(cj, t))
             rest == MulaR(c, a, dg, j + 1, k2)
         IN  <<<<cj>> \o rest[1], rest[2]>>
Mula(c, a, dg) == MulaR(c, a, dg, 1, 0)

(* ---- the Comba triple register <<r2, r1, r0>> *)
(* RLC_COMBA_ADD: T = R1; R0 += A; R1 += (R0 < A); R2 += (R1 < T) *)
CombaAdd(r, x) ==
    LET r0 == M(r[3] + x)
        r1 == M(r[2] + Lt(r0, x))
        r2 == M(r[1] + Lt(r1, r[2]))
    IN  <<r2, r1, r0>>
(* RLC_COMBA_STEP_MUL: COMBA_ADD(lo); R1 += hi; R2 += (R1 < hi) *)
CombaMul(r, x, y) ==
    LET s  == CombaAdd(r, MulLo(x, y))
        r1 == M(s[2] + MulHi(x, y))
        r2 == M(s[1] + Lt(r1, MulHi(x, y)))
    IN  <<r2, r1, s[3]>>
(* RLC_COMBA_STEP_SQR: doubled product with its own carry *)
CombaSqr(r, x, y) ==
    LET lo == MulLo(x, y)
        hi == MulHi(x, y)
        s0 == M(lo + lo)
        s1 == M(hi + hi + Lt(s0, lo))
        s  == CombaAdd(r, s0)
        r1 == M(s[2] + s1)
        r2 == M(M(s[1] + Lt(r1, s1)) + Lt(s1, hi))
    IN  <<r2, r1, s[3]>>

(* ---- bn_muln_low: column-wise product of two size-digit vectors *)
RECURSIVE ColAcc(_, _, _, _, _, _)
ColAcc(a, b, i, hi, col, r) ==
    IF i > hi THEN r
    ELSE ColAcc(a, b, i + 1, hi, col, CombaMul(r, a[i + 1], b[col - i + 1]))
RECURSIVE MulnR(_, _, _, _)
MulnR(a, b, col, r) ==          \* columns 0 .. 2*size-1
    LET n == Len(a) IN
    IF col >= 2 * n THEN <<>>
    ELSE LET lo == IF col < n THEN 0 ELSE col - n + 1
             hi == IF col < n THEN col ELSE n - 1
             acc == ColAcc(a, b, lo, hi, col, r)
         IN  <<acc[3]>> \o MulnR(a, b, col + 1, <<0, acc[1], acc[2]>>)
Muln(a, b) == MulnR(a, b, 0, <<0, 0, 0>>)

(* ---- bn_sqrn_low: off-diagonal products doubled, diagonal once *)
RECURSIVE SqrAcc(_, _, _, _, _)
SqrAcc(a, i, j, col, r) ==      \* pairs (i, j) with i < j, i + j = col, walking inwards
    IF i > j THEN r
    ELSE IF i = j THEN CombaMul(r, a[i + 1], a[i + 1])
    ELSE SqrAcc(a, i + 1, j - 1, col, CombaSqr(r, a[i + 1], a[j + 1]))
RECURSIVE SqrnR(_, _, _)
SqrnR(a, col, r) ==
    LET n == Len(a) IN
    IF col >= 2 * n THEN <<>>
    ELSE LET lo == IF col < n THEN 0 ELSE col - n + 1
             hi == col - lo
             acc == SqrAcc(a, lo, hi, col, r)
         IN  <<acc[3]>> \o SqrnR(a, col + 1, <<0, acc[1], acc[2]>>)
Sqrn(a) == SqrnR(a, 0, <<0, 0, 0>>)

(* ---- bn_lshb_low / bn_rshb_low by 0 < bits < W *)
RECURSIVE LshbR(_, _, _, _)
LshbR(a, bits, j, carry) ==
    IF j > Len(a) THEN <<<<>>, carry>>
    ELSE LET r  == (a[j] \div Pow(2, W - bits)) % Pow(2, bits)
             cj == M(a[j] * Pow(2, bits)) + carry      \* (a << bits) | carry
             rest == LshbR(a, bits, j + 1, r)
         IN  <<<<cj>> \o rest[1], rest[2]>>
Lshb(a, bits) == LshbR(a, bits, 1, 0)
RECURSIVE RshbR(_, _, _, _)
RshbR(a, bits, j, carry) ==       \* from the top digit downwards
    IF j < 1 THEN <<<<>>, carry>>
    ELSE LET r  == a[j] % Pow(2, bits)
             cj == (a[j] \div Pow(2, bits)) + carry * Pow(2, W - bits)
             rest == RshbR(a, bits, j - 1, r)
         IN  <<rest[1] \o <<cj>>, rest[2]>>
Rshb(a, bits) == RshbR(a, bits, Len(a), 0)

(***************************************************************************)
(* Exhaustive check: state = a pair of equal-length digit vectors          *)
(***************************************************************************)
VARIABLES a, b
RECURSIVE Vecs(_)
Vecs(n) == IF n = 0 THEN {<<>>} ELSE {<<x>> \o v : x \in Dig, v \in Vecs(n - 1)}
Init == \E n \in 1..MaxLen : a \in Vecs(n) /\ b \in Vecs(n)
Next == UNCHANGED <<a, b>>
Spec == Init /\ [][Next]_<<a, b>>

n == Len(a)
Full(rc) == Val(rc[1]) + Pow(Bs, Len(rc[1])) * rc[2]

Correct ==
    /\ Full(Addn(a, b)) = Val(a) + Val(b)
    /\ LET s == Subn(a, b) IN
         /\ Val(s[1]) = (Val(a) - Val(b)) % Pow(Bs, n)
         /\ s[2] = Lt(Val(a), Val(b))
    /\ \A dg \in Dig :
         /\ Full(Add1(a, dg)) = Val(a) + dg
         /\ LET s == Sub1(a, dg) IN
              Val(s[1]) = (Val(a) - dg) % Pow(Bs, n) /\ s[2] = Lt(Val(a), dg)
         /\ Full(Mul1(a, dg)) = Val(a) * dg
         /\ Full(Mula(b, a, dg)) = Val(b) + Val(a) * dg
    /\ Val(Muln(a, b)) = Val(a) * Val(b) /\ Len(Muln(a, b)) = 2 * n
    /\ Val(Sqrn(a)) = Val(a) * Val(a)
    /\ \A bits \in 1..(W - 1) :
         /\ Full(Lshb(a, bits)) = Val(a) * Pow(2, bits)
         /\ Val(Rshb(a, bits)[1]) = Val(a) \div Pow(2, bits)
         /\ Rshb(a, bits)[2] = Val(a) % Pow(2, bits)
=============================================================================
