SPECIFICATION Spec
CONSTANTS
    Orders = {7, 11, 13}
    GuardIdentity = TRUE
    GuardOnCurveSS = TRUE
    GuardCommit = TRUE
    RetryS0 = TRUE
INVARIANTS Complete CodedIsDefinition Malleable
CHECK_DEADLOCK FALSE
