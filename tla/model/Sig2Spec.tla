------------------------------- MODULE Sig2Spec -------------------------------
(***************************************************************************)
(* C05, second part - call-level specification of the signature schemes    *)
(* driven by harness/drv_sig2.c.  An event is ONE verification call with   *)
(* everything it was given and the verdict the library returned; it is     *)
(* accepted iff the verdict equals the scheme's DEFINITION evaluated here  *)
(* on the abstract values (lib/Curve affine group law, lib/BigNat,         *)
(* lib/Sha2, the F_p^2 twist arithmetic of SigSpec):                       *)
(*                                                                         *)
(*  hash-based schemes over E(F_p), evaluated directly:                    *)
(*   PoK-DL   (c, r):  c = H(G || Y || [r]G + [c]Y) mod n   (Camenisch-    *)
(*   PoK-OR   (c0, c1, r0, r1): c0 + c1 = H(G || Y0 || T0 || G || Y1 ||    *)
(*            T1) mod n, T_i = [r_i]G + [c_i]Y_i             Stadler 97)   *)
(*   SoK-DL / SoK-OR: the same with the message in front of the hash input *)
(*            and, for SoK-OR, optional explicit bases g_i                 *)
(*   vBNN-IBS (R, z, h): c = H(id || R), Z = [z]G - [h](R + [c]mpk),       *)
(*            h = H(id || m || R || Z) mod n                               *)
(*   ERS      ring {(h_i, pk_i, SoK-OR_i)}, trapdoor td:                   *)
(*            pp = [td]G + sum h_i and every SoK-OR_i for (h_i, pk_i) holds*)
(*   SMLERS   ERS + a second SoK-OR per entry for (h_i, tau_i) over the    *)
(*            bases (G, H(m)); H(m) is bound from the execution (its input *)
(*            must be the message; correctness of the map is C13)          *)
(*   ETRS     threshold t: all points (0, pp), (y_i, [td_i]G), (y_j, h_j)  *)
(*            lie on a polynomial of degree <= max + size - t and every    *)
(*            SoK-OR_j for (h_j, pk_j) holds                               *)
(*  pairing-based schemes, evaluated in the exponent: every element of G2  *)
(*  is logged with a GHOST logarithm to the base G2 (known to the driver:  *)
(*  it generated the keys / captured the random scalars); the logarithm is *)
(*  VERIFIED here with the group law over F_p^2, and e(P, [k]G2) e(Q, G2)  *)
(*  = 1 becomes [k]P + Q = O in G1 (G1 = E(F_p) of prime order n, checked) *)
(*   CL-A  (a, b, c):  b = [y]a,  c = [x](a + [m]b),  a, b, c # O          *)
(*   CL-B  (a, A, b, B, c): A = [z]a, b = [y]a, B = [y]A,                  *)
(*          c = [x](a + [m]b + [r]B), all # O                              *)
(*   CL-C  the block version: A_i = [z_i]a, B_i = [y]A_i,                  *)
(*          c = [x](a + [m_0]b + sum [m_i]B_i)                             *)
(*   PS    (a, b): a # O, e(a, X + sum [m_i]Y_i) = e(b, g) for a generator *)
(*          g # O of G2; two-party version: the verifier's output element  *)
(*          of G_T is the unity iff this holds for the combined shares     *)
(*   MKLHS sig = sum_i [sk_i](sum_j [f_ij](H(id_i||tag_j) + H(data||id_i)) *)
(*          + [mu_i]G1) and m = sum mu_i mod n; hash points bound from the *)
(*          execution (each call's input must be the expected string)      *)
(*   CMLHS (BLS tags) the two pairing equations of the scheme in the       *)
(*          exponent + the BLS equation per signer; the logarithm of the   *)
(*          combined S comes from the captured random scalars of the       *)
(*          signer, the G_T key elements are bound to their exponents      *)
(* ETRS: the library's tests fix an EXACT threshold (a signature of t + 1  *)
(* signers is refused for t): the verdict must be ACCEPT only if at least  *)
(* t signed and must be ACCEPT if exactly t did (see EtrsOk).              *)
(* Calls that may end abnormally (buffers sized by an operand) run in a    *)
(* child process of the driver; the field crash (signal number, 0 = none)  *)
(* is part of the event and must be 0.                                     *)
(* Scalars that are signature components must lie in [0, n) (property      *)
(* text: components >= group order are rejected); messages are taken mod n *)
(* where the scheme signs elements of Z_n.                                 *)
(***************************************************************************)
EXTENDS SigSpec

Ord(e) == BnVal(e.n)
(* a scalar component in its range 0 <= x < n *)
InRange(x, n) == ~BnNeg(x) /\ BLt(BnVal(x), n)
(* the residue of a signed integer *)
ModN(x, n) == LET r == BMod(BnVal(x), n) IN IF BnNeg(x) /\ r # <<>> THEN BSub(n, r) ELSE r
AllIn(S, n) == \A i \in 1..Len(S) : InRange(S[i], n)

(* an element of the group E(F_p)[n]: canonical affine representation (or the identity), on the curve, killed by n *)
GroupEl(e, P) == /\ RepOk(e, P)
                 /\ LET A == PAbs(e, P) IN OnCurve(A, Crv(e)) /\ (BnVal(e.h) = <<1>> \/ PMulNat(Ord(e), A, Crv(e)).inf)
(* ec_write_bin(.., pack = 1): 00 for the identity, else (02 | sign of y) || x in fcb bytes.  The bit that selects *)
(* the root is a parameter of the format (see CodecSpec, C07): y > (p-1)/2 on pairing-friendly curves, elsewhere   *)
(* bit 0 of the STORED digits of y (of y R mod p in a Montgomery build)                                           *)
SgBit(e, y) == IF e.pairf = 1 THEN (IF BLt(BShr(FPrime(e), 1), y) THEN 1 ELSE 0)
               ELSE LET r == FRaw(e, y) IN IF r = <<>> THEN 0 ELSE r[1] % 2
Enc(e, A) == IF A.inf THEN <<0>> ELSE <<2 + SgBit(e, A.y)>> \o BToBE(A.x, e.fcb)
PadTo(s, k) == IF Len(s) >= k THEN s ELSE s \o Zeros(k - Len(s))
HashInt(bytes, n) == BMod(BFromBE(X!Sha256(bytes)), n)
Lin2(k1, P1, k2, P2, c) == PAdd(PMulNat(k1, P1, c), PMulNat(k2, P2, c), c)

(* ------------------------------------------------ proofs / signatures of knowledge *)
(* one branch: base g, statement Y, challenge c, response s -> the bytes g || Y || [s]g + [c]Y *)
Branch(e, g, Y, c, s) == Enc(e, g) \o Enc(e, Y) \o Enc(e, Lin2(s, g, c, Y, Crv(e)))

DlEqn(e, m, Y, c, s) ==
    HashInt(PadTo(m \o Branch(e, PAbs(e, e.G), Y, c, s), Len(m) + 3 * (e.fcb + 1)), Ord(e)) = c
OrEqn(e, m, g0, g1, Y0, Y1, c0, c1, s0, s1) ==
    HashInt(PadTo(m \o Branch(e, g0, Y0, c0, s0) \o Branch(e, g1, Y1, c1, s1), Len(m) + 6 * (e.fcb + 1)), Ord(e))
        = BAddMod(c0, c1, Ord(e))

PokdlDef(e) == /\ e.mdl = 32 /\ GroupEl(e, e.y)
               /\ InRange(e.c, Ord(e)) /\ InRange(e.r, Ord(e))
               /\ DlEqn(e, <<>>, PAbs(e, e.y), BnVal(e.c), BnVal(e.r))
PokdlLax(e) == /\ e.mdl = 32 /\ GroupEl(e, e.y)
               /\ DlEqn(e, <<>>, PAbs(e, e.y), ModN(e.c, Ord(e)), ModN(e.r, Ord(e)))
SokdlDef(e) == /\ e.mdl = 32 /\ GroupEl(e, e.y)
               /\ InRange(e.c, Ord(e)) /\ InRange(e.s, Ord(e))
               /\ DlEqn(e, e.msg, PAbs(e, e.y), BnVal(e.c), BnVal(e.s))
SokdlLax(e) == /\ e.mdl = 32 /\ GroupEl(e, e.y)
               /\ DlEqn(e, e.msg, PAbs(e, e.y), ModN(e.c, Ord(e)), ModN(e.s, Ord(e)))

(* an OR statement: record with fields y0, y1 (raw points), c0, c1, s0, s1 (raw integers) *)
OrRange(o, n) == InRange(o.c0, n) /\ InRange(o.c1, n) /\ InRange(o.s0, n) /\ InRange(o.s1, n)
OrHolds(e, m, g0, g1, o) ==
    LET n == Ord(e) IN
    OrEqn(e, m, g0, g1, PAbs(e, o.y0), PAbs(e, o.y1), ModN(o.c0, n), ModN(o.c1, n), ModN(o.s0, n), ModN(o.s1, n))
OrOf(y0, y1, c0, c1, s0, s1) == [y0 |-> y0, y1 |-> y1, c0 |-> c0, c1 |-> c1, s0 |-> s0, s1 |-> s1]

PokorStmt(e) == OrOf(e.y0, e.y1, e.c0, e.c1, e.r0, e.r1)
PokorLax(e) == /\ e.mdl = 32 /\ GroupEl(e, e.y0) /\ GroupEl(e, e.y1)
               /\ OrHolds(e, <<>>, PAbs(e, e.G), PAbs(e, e.G), PokorStmt(e))
PokorDef(e) == OrRange(PokorStmt(e), Ord(e)) /\ PokorLax(e)

SokorStmt(e) == OrOf(e.y0, e.y1, e.c0, e.c1, e.s0, e.s1)
SokorLax(e) == /\ e.mdl = 32 /\ GroupEl(e, e.y0) /\ GroupEl(e, e.y1)
               /\ (e.gflag = 1 => GroupEl(e, e.g0) /\ GroupEl(e, e.g1))
               /\ OrHolds(e, e.msg, PAbs(e, IF e.gflag = 1 THEN e.g0 ELSE e.G), PAbs(e, IF e.gflag = 1 THEN e.g1 ELSE e.G), SokorStmt(e))
SokorDef(e) == OrRange(SokorStmt(e), Ord(e)) /\ SokorLax(e)

(* ------------------------------------------------------------------ vBNN-IBS *)
VbnnEqn(e, z, h) ==
    LET cv == Crv(e)  n == Ord(e)
        R == PAbs(e, e.R)
        c == HashInt(e.id \o Enc(e, R), n)
        Z == PSub(PMulNat(z, PAbs(e, e.G), cv), PMulNat(h, PAdd(R, PMulNat(c, PAbs(e, e.mpk), cv), cv), cv), cv)
    IN  HashInt(e.id \o e.msg \o Enc(e, R) \o Enc(e, Z), n) = h
VbnnLax(e) == /\ e.mdl = 32 /\ GroupEl(e, e.R) /\ GroupEl(e, e.mpk)
              /\ InRange(e.hh, Ord(e))
              /\ VbnnEqn(e, ModN(e.z, Ord(e)), BnVal(e.hh))
VbnnDef(e) == InRange(e.z, Ord(e)) /\ VbnnLax(e)

(* ------------------------------------------------------------ ring signatures *)
RECURSIVE SumH(_, _, _)
SumH(e, ring, i) == IF i > Len(ring) THEN PInf ELSE PAdd(PAbs(e, ring[i].h), SumH(e, ring, i + 1), Crv(e))
EntryEls(e, ring) == \A i \in 1..Len(ring) : GroupEl(e, ring[i].h) /\ GroupEl(e, ring[i].pk)
EntryStmt(r) == OrOf(r.h, r.pk, r.c0, r.c1, r.s0, r.s1)
EntryRange(e, ring) == \A i \in 1..Len(ring) : OrRange(EntryStmt(ring[i]), Ord(e))
EntrySoks(e, ring) == \A i \in 1..Len(ring) : OrHolds(e, e.msg, PAbs(e, e.G), PAbs(e, e.G), EntryStmt(ring[i]))

ErsLax(e) == /\ e.mdl = 32 /\ Len(e.ring) >= 1 /\ GroupEl(e, e.pp) /\ EntryEls(e, e.ring)
             /\ PEq(PAbs(e, e.pp), PAdd(PMulNat(ModN(e.td, Ord(e)), PAbs(e, e.G), Crv(e)), SumH(e, e.ring, 1), Crv(e)))
             /\ EntrySoks(e, e.ring)
ErsRange(e) == InRange(e.td, Ord(e)) /\ EntryRange(e, e.ring)
ErsDef(e) == ErsRange(e) /\ ErsLax(e)

(* the linkability part: a second OR statement per entry over the bases (G, H(m)) *)
TagStmt(r) == OrOf(r.h, r.tau, r.d0, r.d1, r.t0, r.t1)
MapBound(e) == e.hn = 1 /\ e.hm[1]["in"] = e.msg /\ GroupEl(e, e.hm[1].P)
SmlLax(e) == /\ ErsLax(e) /\ MapBound(e)
             /\ \A i \in 1..Len(e.ring) :
                   /\ GroupEl(e, e.ring[i].tau)
                   /\ OrHolds(e, e.msg, PAbs(e, e.G), PAbs(e, e.hm[1].P), TagStmt(e.ring[i]))
SmlRange(e) == ErsRange(e) /\ \A i \in 1..Len(e.ring) : OrRange(TagStmt(e.ring[i]), Ord(e))
SmlDef(e) == SmlRange(e) /\ SmlLax(e)

(* threshold version: interpolation in the exponent.  Nodes: (0, pp), (y_i, [td_i]G), (ring y_j, h_j) *)
EtrsXs(e) == <<<<>>>> \o [i \in 1..Len(e.y) |-> ModN(e.y[i], Ord(e))] \o [j \in 1..Len(e.ring) |-> ModN(e.ring[j].y, Ord(e))]
RECURSIVE EtrsTd(_, _)
EtrsTd(e, i) == IF i > Len(e.td) THEN <<>>
                ELSE <<PMulNat(ModN(e.td[i], Ord(e)), PAbs(e, e.G), Crv(e))>> \o EtrsTd(e, i + 1)
RECURSIVE EtrsHs(_, _)
EtrsHs(e, j) == IF j > Len(e.ring) THEN <<>> ELSE <<PAbs(e, e.ring[j].h)>> \o EtrsHs(e, j + 1)
EtrsPs(e) == <<PAbs(e, e.pp)>> \o EtrsTd(e, 1) \o EtrsHs(e, 1)
Distinct(xs) == \A i, j \in 1..Len(xs) : i < j => xs[i] # xs[j]
(* Lagrange coefficient of node i among the first k nodes, evaluated at x *)
RECURSIVE LagC(_, _, _, _, _, _)
LagC(xs, k, i, x, n, j) ==
    IF j > k THEN <<1>>
    ELSE IF j = i THEN LagC(xs, k, i, x, n, j + 1)
    ELSE BMulMod(BMulMod(BSubMod(x, xs[j], n), BModInv(BSubMod(xs[i], xs[j], n), n), n), LagC(xs, k, i, x, n, j + 1), n)
RECURSIVE LagEval(_, _, _, _, _, _)
LagEval(xs, ps, k, x, c, i) ==
    IF i > k THEN PInf
    ELSE PAdd(PMulNat(LagC(xs, k, i, x, c.n, 1), ps[i], c.c), LagEval(xs, ps, k, x, c, i + 1), c.c)
(* all nodes lie on the polynomial of degree <= k - 1 through the first k nodes *)
OnPoly(xs, ps, k, c) ==
    \A q \in (k + 1)..Len(xs) : PEq(LagEval(xs, ps, k, xs[q], c, 1), ps[q])
EtrsPoly(e, t) ==
    LET xs == EtrsXs(e)
        k  == Len(xs) - t                    \* degree bound max + size - t  =>  k = max + size - t + 1 nodes determine it
    IN  /\ t >= 1 /\ t <= Len(e.ring) /\ k >= 1
        /\ Distinct(xs)
        /\ OnPoly(xs, EtrsPs(e), k, [n |-> Ord(e), c |-> Crv(e)])
EtrsEntryStmt(r) == OrOf(r.h, r.pk, r.c0, r.c1, r.s0, r.s1)
EtrsSoks(e) == /\ e.mdl = 32 /\ Len(e.ring) >= 1 /\ Len(e.td) = Len(e.y)
               /\ \A i \in 1..Len(e.ring) : GroupEl(e, e.ring[i].h) /\ GroupEl(e, e.ring[i].pk)
               /\ \A i \in 1..Len(e.ring) : OrHolds(e, e.msg, PAbs(e, e.G), PAbs(e, e.G), EtrsEntryStmt(e.ring[i]))
EtrsRange(e) == /\ AllIn(e.td, Ord(e)) /\ AllIn(e.y, Ord(e))
                /\ \A i \in 1..Len(e.ring) : InRange(e.ring[i].y, Ord(e)) /\ OrRange(EtrsEntryStmt(e.ring[i]), Ord(e))
EtrsLax(e, t) == EtrsSoks(e) /\ GroupEl(e, e.pp) /\ EtrsPoly(e, t)
EtrsDef(e, t) == EtrsRange(e) /\ EtrsLax(e, t)
(* The library documents the threshold as exact in its tests (a signature of t + 1 signers is refused for t): the     *)
(* verdict must be ACCEPT only if at least t signed (definition above), and ACCEPT if exactly t did.                *)
EtrsOk(e) ==
    /\ Clean(e) /\ e.crash = 0
    /\ IF e.ret = 1 THEN EtrsDef(e, e.thres)
       ELSE /\ e.ret = 0 /\ e.honest = 0
            /\ (EtrsDef(e, e.thres) => EtrsDef(e, e.thres + 1))

(* --------------------------------------------------------- pairing groups *)
(* the domain parameters of a case (checked once, on the key generation event) *)
PcGenOk(e) ==
    /\ Clean(e) /\ e.ret = 0
    /\ BnVal(e.h) = <<1>>
    /\ RepOk(e, e.G1) /\ ~PAbs(e, e.G1).inf /\ OnCurve(PAbs(e, e.G1), Crv(e))
    /\ PMulNat(Ord(e), PAbs(e, e.G1), Crv(e)).inf
    /\ T2Norm(e, e.G2) /\ ValidG2(e, T2Abs(e, e.G2))
(* a G1 operand: canonical affine point of the curve (cofactor 1: every such point is in G1) *)
G1El(e, P) == RepOk(e, P) /\ OnCurve(PAbs(e, P), Crv(e))
G1Nz(e, P) == G1El(e, P) /\ ~PAbs(e, P).inf
(* a G2 operand q = [P, has, lg]: has = 1 claims P = [lg]G2 with 0 <= lg < n, has = 0 claims that P is no element of G2 *)
G2LogOk(e, q) == /\ q.has = 1 /\ T2Norm(e, q.P) /\ InRange(q.lg, Ord(e))
                 /\ T2Abs(e, q.P) = TMulNat(BnVal(q.lg), T2Abs(e, e.G2), Twist(e))
G2Outside(e, q) == q.has = 0 /\ (~T2Norm(e, q.P) \/ ~TOn(T2Abs(e, q.P), Twist(e)) \/ ~TMulNat(Ord(e), T2Abs(e, q.P), Twist(e)).inf)
(* every ghost claim of the event holds: otherwise the event cannot be judged (a harness fault, reported as rejection) *)
G2Claims(e, qs) == \A i \in 1..Len(qs) : G2LogOk(e, qs[i]) \/ G2Outside(e, qs[i])
G2AllIn(qs) == \A i \in 1..Len(qs) : qs[i].has = 1
Lg(q) == BnVal(q.lg)
MsgInt(e, m) == BMod(BFromBE(m), Ord(e))
PMulG(e, k, P) == PMulNat(k, PAbs(e, P), Crv(e))

(* ---------------------------------------------------- Camenisch-Lysyanskaya *)
ClsKeys(e) == <<e.x, e.y>>
ClsDef(e) ==
    LET cv == Crv(e)  m == MsgInt(e, e.msg) IN
    /\ G1Nz(e, e.a) /\ G1Nz(e, e.b) /\ G1Nz(e, e.c) /\ G2AllIn(ClsKeys(e))
    /\ PEq(PAbs(e, e.b), PMulG(e, Lg(e.y), e.a))
    /\ PEq(PAbs(e, e.c), PMulNat(Lg(e.x), PAdd(PAbs(e, e.a), PMulG(e, m, e.b), cv), cv))
CliKeys(e) == <<e.x, e.y, e.z>>
CliDef(e) ==
    LET cv == Crv(e)  m == MsgInt(e, e.msg)  r == ModN(e.r, Ord(e)) IN
    /\ G1Nz(e, e.a) /\ G1Nz(e, e.A) /\ G1Nz(e, e.b) /\ G1Nz(e, e.B) /\ G1Nz(e, e.c) /\ G2AllIn(CliKeys(e))
    /\ PEq(PAbs(e, e.A), PMulG(e, Lg(e.z), e.a))
    /\ PEq(PAbs(e, e.b), PMulG(e, Lg(e.y), e.a))
    /\ PEq(PAbs(e, e.B), PMulG(e, Lg(e.y), e.A))
    /\ PEq(PAbs(e, e.c), PMulNat(Lg(e.x), PAdd(PAbs(e, e.a), PAdd(PMulG(e, m, e.b), PMulG(e, r, e.B), cv), cv), cv))
ClbKeys(e) == <<e.x, e.y>> \o e.z
RECURSIVE ClbSum(_, _)
ClbSum(e, i) == IF i > Len(e.B) THEN PInf ELSE PAdd(PMulG(e, MsgInt(e, e.ms[i + 1]), e.B[i]), ClbSum(e, i + 1), Crv(e))
ClbDef(e) ==
    LET cv == Crv(e) IN
    /\ Len(e.ms) = Len(e.z) + 1 /\ Len(e.A) = Len(e.z) /\ Len(e.B) = Len(e.z)
    /\ G1Nz(e, e.a) /\ G1Nz(e, e.b) /\ G1Nz(e, e.c) /\ G2AllIn(ClbKeys(e))
    /\ \A i \in 1..Len(e.z) : G1Nz(e, e.A[i]) /\ G1Nz(e, e.B[i])
    /\ PEq(PAbs(e, e.b), PMulG(e, Lg(e.y), e.a))
    /\ \A i \in 1..Len(e.z) : /\ PEq(PAbs(e, e.A[i]), PMulG(e, Lg(e.z[i]), e.a))
                              /\ PEq(PAbs(e, e.B[i]), PMulG(e, Lg(e.y), e.A[i]))
    /\ PEq(PAbs(e, e.c), PMulNat(Lg(e.x), PAdd(PAbs(e, e.a), PAdd(PMulG(e, MsgInt(e, e.ms[1]), e.b), ClbSum(e, 1), cv), cv), cv))

(* ------------------------------------------------------ Pointcheval-Sanders *)
PsKeys(e) == <<e.g, e.x>> \o e.y
RECURSIVE PsExp(_, _, _)
PsExp(e, ms, i) == IF i > Len(e.y) THEN <<>>
                   ELSE BAddMod(BMulMod(ms[i], Lg(e.y[i]), Ord(e)), PsExp(e, ms, i + 1), Ord(e))
(* e(a, X + sum [m_i]Y_i) = e(b, g)  <=>  [log X + sum m_i log Y_i]a = [log g]b *)
PsEqn(e, ms, b) ==
    PEq(PMulG(e, BAddMod(Lg(e.x), PsExp(e, ms, 1), Ord(e)), e.a), PMulNat(Lg(e.g), b, Crv(e)))
PsMsgs(e) == [i \in 1..Len(e.m) |-> ModN(e.m[i], Ord(e))]
(* strict: the key is (g, X, Y_1 .. Y_l) with g a generator of G2 and X, Y_i elements of G2.  The lax form (used only *)
(* to key a known finding) lets g = O pass and ignores a Y_i outside G2 whose message m_i is 0 mod n ([0]Y_i = O      *)
(* whatever Y_i is; the ghost logarithm of such an element is logged as 0)                                           *)
PsDefG(e, strict) ==
    /\ Len(e.m) = Len(e.y)
    /\ G1Nz(e, e.a) /\ G1El(e, e.b) /\ G2AllIn(<<e.g, e.x>>)
    /\ \A i \in 1..Len(e.y) : e.y[i].has = 1 \/ (~strict /\ PsMsgs(e)[i] = <<>> /\ Lg(e.y[i]) = <<>>)
    /\ (strict => Lg(e.g) # <<>>)                               \* g generates G2
    /\ PsEqn(e, PsMsgs(e), PAbs(e, e.b))
PsDef(e) == PsDefG(e, TRUE)
(* two parties: shares m_i = m_i0 + m_i1, b = b0 + b1; with vflag the shares of the secret exponents replace Y_i *)
MpsMsgs(e) == [i \in 1..Len(e.m) |-> BAddMod(ModN(e.m[i][1], Ord(e)), ModN(e.m[i][2], Ord(e)), Ord(e))]
RECURSIVE MpsSecExp(_, _, _)
MpsSecExp(e, ms, i) == IF i > Len(e.sv) THEN <<>>
                       ELSE BAddMod(BMulMod(ms[i], ModN(e.sv[i], Ord(e)), Ord(e)), MpsSecExp(e, ms, i + 1), Ord(e))
MpsDefG(e, needgen) ==
    LET cv == Crv(e)
        b == PAdd(PAbs(e, e.b0), PAbs(e, e.b1), cv)
    IN  /\ Len(e.m) = Len(e.y)
        /\ G1Nz(e, e.a) /\ G1El(e, e.b0) /\ G1El(e, e.b1)
        /\ G2AllIn(<<e.g>>) /\ (needgen => Lg(e.g) # <<>>)
        /\ IF e.vflag = 0
           THEN G2AllIn(PsKeys(e)) /\ PsEqn(e, MpsMsgs(e), b)
           ELSE /\ G2AllIn(<<e.g, e.x>>)
                /\ PEq(PMulG(e, BAddMod(Lg(e.x), BMulMod(Lg(e.g), MpsSecExp(e, MpsMsgs(e), 1), Ord(e)), Ord(e)), e.a),
                       PMulNat(Lg(e.g), b, cv))
MpsDef(e) == MpsDefG(e, TRUE)
GtIsOne(e, g) == FAbs(e, g[1]) = <<1>> /\ \A i \in 2..Len(g) : FAbs(e, g[i]) = <<>>
MpsKeys(e) == IF e.vflag = 0 THEN PsKeys(e) ELSE <<e.g, e.x>>
MpsOk(e) == /\ Clean(e) /\ e.ret = 0 /\ G2Claims(e, MpsKeys(e))
            /\ \A i \in 1..Len(e.e) : FCanon(e, e.e[i])
            /\ (GtIsOne(e, e.e) <=> MpsDef(e))
            /\ (e.honest = 1 => GtIsOne(e, e.e))

(* ------------------------------------------------- homomorphic signatures *)
DigVal(d) == BNorm(d)
(* MKLHS: sig = sum_i [sk_i]( sum_j [f_ij](H(id_i || tag_j) + H(data || id_i)) + [mu_i]G1 ),  m = sum mu_i mod n.     *)
(* The hash-to-curve outputs are bound from the execution: call k of the verifier must have hashed the expected     *)
(* string (the order is: per signer H(data || id_i), then H(id_i || tag_j) for each coefficient).                   *)
RECURSIVE MkOff(_, _)
MkOff(e, i) == IF i = 1 THEN 0 ELSE MkOff(e, i - 1) + 1 + Len(e.f[i - 1])
MkBound(e) ==
    /\ e.hn = MkOff(e, Len(e.f) + 1) /\ Len(e.hm) = e.hn
    /\ \A i \in 1..Len(e.f) :
          /\ e.hm[MkOff(e, i) + 1]["in"] = e.data \o e.ids[i]
          /\ \A j \in 1..Len(e.f[i]) : e.hm[MkOff(e, i) + 1 + j]["in"] = e.ids[i] \o e.tags[j]
    /\ \A k \in 1..e.hn : G1El(e, e.hm[k].P)
RECURSIVE MkInner(_, _, _)
MkInner(e, i, j) ==
    IF j > Len(e.f[i]) THEN PInf
    ELSE LET cv == Crv(e)
             Hj == PAdd(PAbs(e, e.hm[MkOff(e, i) + 1 + j].P), PAbs(e, e.hm[MkOff(e, i) + 1].P), cv)
         IN  PAdd(PMulNat(DigVal(e.f[i][j]), Hj, cv), MkInner(e, i, j + 1), cv)
RECURSIVE MkOuter(_, _)
MkOuter(e, i) ==
    IF i > Len(e.f) THEN PInf
    ELSE LET cv == Crv(e)
             gi == PAdd(MkInner(e, i, 1), PMulG(e, ModN(e.mu[i], Ord(e)), e.G1), cv)
         IN  PAdd(PMulNat(Lg(e.pk[i]), gi, cv), MkOuter(e, i + 1), cv)
RECURSIVE SumMod(_, _, _)
SumMod(xs, n, i) == IF i > Len(xs) THEN <<>> ELSE BAddMod(ModN(xs[i], n), SumMod(xs, n, i + 1), n)
MkShape(e) == /\ Len(e.f) >= 1 /\ Len(e.f) = Len(e.ids) /\ Len(e.f) = Len(e.mu) /\ Len(e.f) = Len(e.pk)
              /\ \A i \in 1..Len(e.f) : Len(e.f[i]) <= Len(e.tags)
MkDef(e) ==
    /\ MkShape(e) /\ MkBound(e)
    /\ G1El(e, e.sig) /\ G2AllIn(e.pk)
    /\ ~BnNeg(e.m) /\ BnVal(e.m) = SumMod(e.mu, Ord(e), 1)
    /\ PEq(PAbs(e, e.sig), MkOuter(e, 1))
(* the verifier normalises slen (number of signers) points of an array that holds max flen of them *)
MkOverrun(e) == \E i \in 1..Len(e.f) : \A k \in 1..Len(e.f) : Len(e.f) > Len(e.f[k])

(* CMLHS (Schabhueser, Butin, Buchmann 2019), tag signatures by BLS:                                               *)
(*   for every signer i: BLS(pk_i) on (encoding of z_i || data) is sig_i                                           *)
(*   prod e(a_i, z_i) = prod e(c_i, y_i) e(r, G2) prod hs_i,l^f_il     and   e(G1, s) e(sum c_i, G2) = e([m]h, G2)  *)
(* in the exponent (ghost logarithms of z_i, y_i, pk_i, s; the elements hs_i,l = e(G1, G2)^x_il of the key are    *)
(* bound to their ghost exponents from key generation: xf = sum f_il x_il):                                       *)
(*   sum [log z_i]a_i = sum [log y_i]c_i + r + [xf]G1          [log s]G1 + sum c_i = [m]h                          *)
Enc2(e, q) == LET A == T2Abs(e, q) IN
              IF A.inf THEN <<0>>
              ELSE <<4>> \o BToBE(A.x[1], e.fcb) \o BToBE(A.x[2], e.fcb) \o BToBE(A.y[1], e.fcb) \o BToBE(A.y[2], e.fcb)
CmKeys(e) == <<e.s>> \o e.z \o e.y \o e.pk
RECURSIVE CmSum(_, _, _, _)
CmSum(e, qs, ps, i) == IF i > Len(ps) THEN PInf ELSE PAdd(PMulG(e, Lg(qs[i]), ps[i]), CmSum(e, qs, ps, i + 1), Crv(e))
RECURSIVE CmAdd(_, _, _)
CmAdd(e, ps, i) == IF i > Len(ps) THEN PInf ELSE PAdd(PAbs(e, ps[i]), CmAdd(e, ps, i + 1), Crv(e))
CmDef(e) ==
    LET cv == Crv(e)  S == Len(e.z) IN
    /\ S >= 1 /\ Len(e.y) = S /\ Len(e.pk) = S /\ Len(e.sig) = S /\ Len(e.a) = S /\ Len(e.c) = S /\ Len(e.f) = S
    /\ G2AllIn(CmKeys(e))
    /\ G1El(e, e.r) /\ G1El(e, e.h) /\ \A i \in 1..S : G1El(e, e.a[i]) /\ G1El(e, e.c[i])
    /\ e.hn = S /\ Len(e.hm) = S
    /\ \A i \in 1..S :
          /\ e.hm[i]["in"] = Enc2(e, e.z[i].P) \o e.data /\ G1El(e, e.hm[i].P)
          /\ G1Nz(e, e.sig[i]) /\ Lg(e.pk[i]) # <<>>
          /\ PEq(PAbs(e, e.sig[i]), PMulG(e, Lg(e.pk[i]), e.hm[i].P))
    /\ PEq(CmSum(e, e.z, e.a, 1),
           PAdd(CmSum(e, e.y, e.c, 1), PAdd(PAbs(e, e.r), PMulG(e, ModN(e.xf, Ord(e)), e.G1), cv), cv))
    /\ PEq(PAdd(PMulG(e, Lg(e.s), e.G1), CmAdd(e, e.c, 1), cv), PMulG(e, ModN(e.m, Ord(e)), e.h))
(* the verifier's buffer has the size of the encoding of s and receives the encodings of the z_i *)
CmOverrun(e) == T2Norm(e, e.s.P) /\ T2Abs(e, e.s.P).inf /\ \E i \in 1..Len(e.z) : ~(T2Norm(e, e.z[i].P) /\ T2Abs(e, e.z[i].P).inf)

(* ----------------------------------------------------------------- accept *)
PlainOk(e) == Clean(e) /\ e.ret = 0
Sig2Accept(e) ==
    CASE e.op = "pokdl_ver" -> Verdict(e, PokdlDef(e))
      [] e.op = "pokor_ver" -> Verdict(e, PokorDef(e))
      [] e.op = "sokdl_ver" -> Verdict(e, SokdlDef(e))
      [] e.op = "sokor_ver" -> Verdict(e, SokorDef(e))
      [] e.op = "vbnn_ver"  -> e.crash = 0 /\ Verdict(e, VbnnDef(e))
      [] e.op = "vbnn_gen"  -> EcGenOk(e)
      [] e.op = "ers_ver"   -> Verdict(e, ErsDef(e))
      [] e.op = "smlers_ver" -> Verdict(e, SmlDef(e))
      [] e.op = "etrs_ver"  -> EtrsOk(e)
      [] e.op = "cls_ver"   -> G2Claims(e, ClsKeys(e)) /\ Verdict(e, ClsDef(e))
      [] e.op = "cli_ver"   -> G2Claims(e, CliKeys(e)) /\ Verdict(e, CliDef(e))
      [] e.op = "clb_ver"   -> G2Claims(e, ClbKeys(e)) /\ Verdict(e, ClbDef(e))
      [] e.op \in {"pss_ver", "psb_ver"} -> G2Claims(e, PsKeys(e)) /\ Verdict(e, PsDef(e))
      [] e.op \in {"mpss_ver", "mpsb_ver"} -> MpsOk(e)
      [] e.op = "mklhs_ver" -> e.crash = 0 /\ G2Claims(e, e.pk) /\ Verdict(e, MkDef(e))
      [] e.op = "cmlhs_ver" -> e.crash = 0 /\ G2Claims(e, CmKeys(e)) /\ Verdict(e, CmDef(e))
      [] e.op \in {"cls_gen", "cli_gen", "clb_gen", "pss_gen", "psb_gen", "mpss_gen", "mpsb_gen", "mklhs_gen", "cmlhs_gen"} -> PcGenOk(e)
      [] e.op \in {"pokdl_prv", "pokor_prv", "sokdl_sig", "sokor_sig", "vbnn_prv", "vbnn_sig", "ers_sig", "smlers_sig",
                   "etrs_sig", "cls_sig", "cli_sig", "clb_sig", "pss_sig", "psb_sig", "mpss_sig", "mpsb_sig",
                   "mklhs_sig", "cmlhs_sig"} -> PlainOk(e)
      [] OTHER -> FALSE

(* ---------------------------------------------------------- known findings *)
(* Each key names ONE wrong outcome on ONE input class; everything else of the event must be as defined. *)
Accepted(e) == Clean(e) /\ e.ret = 1
Sig2KnownKey(e) ==
    CASE e.op = "pokdl_ver" ->
            IF Accepted(e) /\ ~(InRange(e.c, Ord(e)) /\ InRange(e.r, Ord(e))) /\ PokdlLax(e)
            THEN "C05-pok-scalars-not-range-checked" ELSE ""
      [] e.op = "pokor_ver" ->
            IF Accepted(e) /\ ~OrRange(PokorStmt(e), Ord(e)) /\ PokorLax(e)
            THEN "C05-pok-scalars-not-range-checked" ELSE ""
      [] e.op = "sokdl_ver" ->
            IF Accepted(e) /\ ~(InRange(e.c, Ord(e)) /\ InRange(e.s, Ord(e))) /\ SokdlLax(e)
            THEN "C05-sok-scalars-not-range-checked" ELSE ""
      [] e.op = "sokor_ver" ->
            IF Accepted(e) /\ ~OrRange(SokorStmt(e), Ord(e)) /\ SokorLax(e)
            THEN "C05-sok-scalars-not-range-checked" ELSE ""
      [] e.op = "vbnn_ver" ->
            IF e.crash # 0
            THEN \* the hash buffer is sized with twice the encoding of R: for R = O the encoding of Z is written behind it
                 (IF RepOk(e, e.R) /\ PAbs(e, e.R).inf THEN "C05-vbnn-buffer-sized-by-r" ELSE "")
            ELSE IF Accepted(e) /\ ~InRange(e.z, Ord(e)) /\ VbnnLax(e)
            THEN "C05-vbnn-z-not-range-checked" ELSE ""
      [] e.op = "ers_ver" ->
            \* the embedded signatures of knowledge are verified by cp_sokor_ver, the trapdoor by the ring verifier itself
            IF Accepted(e) /\ ~ErsRange(e) /\ ErsLax(e)
            THEN (IF ~EntryRange(e, e.ring) THEN "C05-sok-scalars-not-range-checked" ELSE "C05-ers-trapdoor-not-range-checked")
            ELSE ""
      [] e.op = "smlers_ver" ->
            IF Accepted(e) /\ ~SmlRange(e) /\ SmlLax(e)
            THEN (IF ~(EntryRange(e, e.ring) /\ \A i \in 1..Len(e.ring) : OrRange(TagStmt(e.ring[i]), Ord(e)))
                  THEN "C05-sok-scalars-not-range-checked" ELSE "C05-ers-trapdoor-not-range-checked")
            ELSE ""
      [] e.op = "etrs_ver" ->
            IF e.thres > Len(e.ring)
            THEN \* the work arrays have max + size - thres entries and are filled with max of them: anything may happen
                 (IF e.crash # 0 \/ ~Clean(e) \/ e.ret # 0 THEN "C05-etrs-threshold-above-ring-size-overflows" ELSE "")
            ELSE IF ~(Accepted(e) /\ e.crash = 0 /\ e.thres >= 1 /\ EtrsSoks(e)) THEN ""
            ELSE IF ~(GroupEl(e, e.pp) /\ EtrsPoly(e, e.thres))
                 THEN \* every signature of knowledge holds but the nodes (0, pp), (y_i, [td_i]G), (y_j, h_j) are not on a
                      \* polynomial of the required degree (pp may not even be a point of the curve)
                      "C05-etrs-interpolation-not-enforced"
            ELSE IF ~(\A i \in 1..Len(e.ring) : OrRange(EtrsEntryStmt(e.ring[i]), Ord(e))) THEN "C05-sok-scalars-not-range-checked"
            ELSE IF ~EtrsRange(e) THEN "C05-ers-trapdoor-not-range-checked"
            ELSE ""
      [] e.op \in {"pss_ver", "psb_ver"} ->
            \* the key is not validated: g = O is no generator (the equation degenerates to e(a, X + sum [m_i]Y_i) = 1),
            \* and a Y_i that is no element of G2 goes unnoticed when m_i = 0
            IF Accepted(e) /\ G2Claims(e, PsKeys(e)) /\ ~PsDefG(e, TRUE) /\ PsDefG(e, FALSE)
            THEN "C05-ps-public-key-not-validated" ELSE ""
      [] e.op \in {"mpss_ver", "mpsb_ver"} ->
            IF /\ Clean(e) /\ e.ret = 0 /\ G2Claims(e, MpsKeys(e)) /\ (\A i \in 1..Len(e.e) : FCanon(e, e.e[i])) /\ GtIsOne(e, e.e)
               /\ G2AllIn(<<e.g>>) /\ Lg(e.g) = <<>> /\ MpsDefG(e, FALSE)
            THEN "C05-ps-public-key-not-validated" ELSE ""
      [] e.op = "mklhs_ver" ->
            \* undefined behaviour (reads and writes behind the array): abnormal end or a verdict that differs from the definition
            IF MkShape(e) /\ MkOverrun(e) /\ G2Claims(e, e.pk) /\ (e.crash # 0 \/ ~Verdict(e, MkDef(e)))
            THEN "C05-mklhs-normalises-signers-instead-of-labels" ELSE ""
      [] e.op = "cmlhs_ver" ->
            IF CmOverrun(e) /\ (e.crash # 0 \/ ~Verdict(e, CmDef(e)))
            THEN "C05-cmlhs-buffer-sized-by-s" ELSE ""
      [] OTHER -> ""
=============================================================================
