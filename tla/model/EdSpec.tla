------------------------------- MODULE EdSpec -------------------------------
(***************************************************************************)
(* Twisted Edwards curves of RELIC (the ed module) at the level of one     *)
(* public call (C17): what every group operation, scalar multiplication,   *)
(* compression / byte-format routine and the hash-to-curve map must return *)
(* for given operand VALUES.  The definition is lib/Edwards (affine        *)
(* unified law, model-checked to be a group law on every complete curve by *)
(* model/MCEdwards); the formula programs of the library are checked       *)
(* against it at design level by model/EdFormulas.                         *)
(*                                                                         *)
(* An event e (harness/drv_ed.c) carries the field header (p, w, fd,       *)
(* mont), the raw curve coefficients ca, cd, the subgroup order n and the  *)
(* cofactor h (bn projections), build parameters (add = ED_ADD: 1 affine,  *)
(* 2 projective, 3 extended; fpb, fb, wd = RLC_WIDTH, dep = RLC_DEPTH, dgb)*)
(* al = alias pattern, the raw inputs BEFORE the call, the raw outputs     *)
(* AFTER the call, err / code / crash and unch (every non-aliased input    *)
(* object bit-identical afterwards).                                       *)
(*                                                                         *)
(* Raw point = [x, y, z, t raw field elements, c = coordinate tag].        *)
(* Refinement mapping (EdAbs): tag 1 (BASIC) -> (x, y); tags 2, 3 (PROJC,  *)
(* EXTND) -> (x/z, y/z), z # 0.  The extended coordinate is valid when     *)
(* T Z = X Y (TOk); it is demanded of every output of an operation of the  *)
(* extended system (ed_*_extnd, and every generic operation of a build     *)
(* configured with ED_ADD = EXTND), and of the inputs such an operation    *)
(* reads.                                                                  *)
(***************************************************************************)
EXTENDS FpRep, Edwards, BigInt

Crv(e) == [p |-> FPrime(e), a |-> FAbs(e, e.ca), d |-> FAbs(e, e.cd)]
Ok(e) == e.crash = 0 /\ e.err = 0 /\ e.code = 0 /\ e.unch
Thrown(e) == e.crash = 0 /\ e.err # 0             \* the call rejected its input by throwing
ValidTag(P) == P.c \in {1, 2, 3}
ECanon(e, P) == FCanon(e, P.x) /\ FCanon(e, P.y) /\ FCanon(e, P.z)
ZVal(e, P) == FAbs(e, P.z)

EdAbs(e, P) ==
    LET p == FPrime(e)
        x == FAbs(e, P.x)
        y == FAbs(e, P.y)
        z == FAbs(e, P.z)
    IN  IF P.c = 1 THEN EPt(x, y)
        ELSE IF z = <<>> THEN EUndef
        ELSE LET zi == FInv(z, p) IN EPt(FMul(x, zi, p), FMul(y, zi, p))
(* T Z = X Y *)
TOk(e, P) == LET p == FPrime(e) IN
             FMul(FAbs(e, P.t), FAbs(e, P.z), p) = FMul(FAbs(e, P.x), FAbs(e, P.y), p)

(* operand representations an operation of system sys is specified for:   *)
(* sys 1 (affine): z = 1; sys 2, 3: z # 0 and affine-tagged points have    *)
(* z = 1; sys 3 additionally reads T                                       *)
RepOk(e, P, sys) ==
    /\ ValidTag(P) /\ ECanon(e, P)
    /\ IF sys = 1 THEN ZVal(e, P) = <<1>>
       ELSE ZVal(e, P) # <<>> /\ (P.c = 1 => ZVal(e, P) = <<1>>)
    /\ (sys = 3 => FCanon(e, P.t) /\ TOk(e, P))
OnC(e, P) == EOnCurve(EdAbs(e, P), Crv(e))

BasicOps == {"ed_neg_basic", "ed_add_basic", "ed_sub_basic", "ed_dbl_basic"}
ProjcOps == {"ed_add_projc", "ed_sub_projc", "ed_dbl_projc"}
ExtndOps == {"ed_add_extnd", "ed_sub_extnd", "ed_dbl_extnd"}
SysOf(e) ==
    CASE e.op \in BasicOps -> 1
      [] e.op \in ProjcOps -> 2
      [] e.op \in ExtndOps -> 3
      [] e.op = "ed_neg_projc" -> IF e.add = 3 THEN 3 ELSE 2     \* maintains T in EXTND builds only
      [] OTHER -> e.add          \* the build's default system (ed_add, ed_dbl, ed_sub, ed_neg, ed_mul...)
(* operations that accept every well-formed representation (ed_norm, ed_cmp, ...): T only matters in EXTND builds *)
GenSys(e) == IF e.add = 3 THEN 3 ELSE 2

(* the call returned normally and R represents the point X (with a valid T where the system has one) *)
RepPoint(e, R, X, sys) ==
    /\ ValidTag(R) /\ (R.c # 1 => ZVal(e, R) # <<>>)
    /\ EEq(EdAbs(e, R), X)
    /\ (sys = 3 => TOk(e, R))
RetPoint(e, X) == Ok(e) /\ RepPoint(e, e.R, X, SysOf(e))
(* ... in normalised form: z = 1 *)
RetNormal(e, X) == RetPoint(e, X) /\ ZVal(e, e.R) = <<1>>

KNeg(k) == k.s = 1 /\ BNorm(k.d) # <<>>
KP(e, k, P) == EMul(KNeg(k), BNorm(k.d), EdAbs(e, P), Crv(e))

RECURSIVE SumKPSeq(_, _)
SumKPSeq(e, sums) ==
    IF Len(sums) > Len(e.ps) THEN sums
    ELSE LET i == Len(sums)
             nxt == EAdd(sums[i], KP(e, e.ks[i], e.ps[i]), Crv(e))
         IN  SumKPSeq(e, Append(sums, nxt))
SumKP(e) == LET s == SumKPSeq(e, <<EO>>) IN s[Len(s)]

NegOps == {"ed_neg", "ed_neg_basic", "ed_neg_projc"}
DblOps == {"ed_dbl", "ed_dbl_basic", "ed_dbl_projc", "ed_dbl_extnd"}
AddOps == {"ed_add", "ed_add_basic", "ed_add_projc", "ed_add_extnd"}
SubOps == {"ed_sub", "ed_sub_basic", "ed_sub_projc", "ed_sub_extnd"}
MulOps == {"ed_mul", "ed_mul_basic", "ed_mul_slide", "ed_mul_monty", "ed_mul_lwnaf", "ed_mul_lwreg",
           "ed_mul_gen", "ed_mul_fix", "ed_mul_fix_basic", "ed_mul_fix_combs", "ed_mul_fix_combd",
           "ed_mul_fix_lwnaf"}
SimOps == {"ed_mul_sim", "ed_mul_sim_basic", "ed_mul_sim_trick", "ed_mul_sim_inter", "ed_mul_sim_joint",
           "ed_mul_sim_gen"}

(***************************************************************************)
(* Byte formats (ed_write_bin / ed_read_bin / ed_size_bin):                *)
(*   neutral element: the single byte 0                                    *)
(*   packed:   2 + b, y (fb bytes big-endian), b one bit that selects x    *)
(*   unpacked: 4, y, x                                                     *)
(* Which bit of x is recorded is RELIC's own convention and not part of    *)
(* the property (it is the parity of the field element AS STORED, i.e. of  *)
(* the Montgomery representation in Montgomery builds - not RFC 8032's     *)
(* parity of x); what C17 claims is the round trip, judged on compound     *)
(* events (pack then unpack, write then read) for P and -P alike.          *)
(* Encodings are canonical: the neutral element is the single byte 0 only  *)
(* (02 || 1, 04 || 1 || 0 are refused), and for x = 0 (y = -1) only the    *)
(* clear bit is accepted (ed_upk returns 0 for the other one).             *)
(***************************************************************************)
Sub(s, i, j) == IF i > j THEN <<>> ELSE SubSeq(s, i, j)
AllZero(s) == \A i \in 1..Len(s) : s[i] = 0
IsBinOf(e, bin, X, pack) ==
    IF EIsO(X) THEN bin = EBinO
    ELSE IF pack = 1 THEN \E b \in {0, 1} : bin = EBinPacked(X, b, e.fb)
    ELSE bin = EBinPlain(X, e.fb)
BinSize(e, X, pack) == IF EIsO(X) THEN 1 ELSE IF pack = 1 THEN e.fb + 1 ELSE 2 * e.fb + 1

(* the point(s) an encoding denotes: the set is empty for an invalid encoding *)
ReadOk(e, R, bin) ==
    LET c == Crv(e)
        n == Len(bin)
        X == EdAbs(e, R)
    IN  IF n = 1 THEN bin[1] = 0 /\ EIsO(X)
        ELSE IF n = e.fb + 1 THEN
             LET y == BFromBE(Sub(bin, 2, n)) IN
             /\ bin[1] \in {2, 3} /\ BLt(y, c.p) /\ EHasX(y, c)
             /\ EIsUpkOf(X, y, c)
        ELSE IF n = 2 * e.fb + 1 THEN
             LET y == BFromBE(Sub(bin, 2, e.fb + 1))
                 x == BFromBE(Sub(bin, e.fb + 2, n))
             IN  /\ bin[1] = 4 /\ BLt(y, c.p) /\ BLt(x, c.p)
                 /\ EOnCurve(EPt(x, y), c) /\ EEq(X, EPt(x, y))
        ELSE FALSE
ReadValid(e, bin) ==
    LET c == Crv(e)
        n == Len(bin)
    IN  IF n = 1 THEN bin[1] = 0
        ELSE IF n = e.fb + 1 THEN
             LET y == BFromBE(Sub(bin, 2, n)) IN
             /\ bin[1] \in {2, 3} /\ BLt(y, c.p) /\ EHasX(y, c)
             /\ y # <<1>>                                          \* the neutral element is the single byte 0 only
             /\ (EXSquared(y, c) = <<>> => bin[1] = 2)             \* x = 0 has no "other sign"
        ELSE IF n = 2 * e.fb + 1 THEN
             LET y == BFromBE(Sub(bin, 2, e.fb + 1))
                 x == BFromBE(Sub(bin, e.fb + 2, n))
             IN  /\ bin[1] = 4 /\ BLt(y, c.p) /\ BLt(x, c.p) /\ EOnCurve(EPt(x, y), c)
                 /\ ~EIsO(EPt(x, y))
        ELSE FALSE

(* the packed form of a point: y kept, z = 1, x reduced to one raw bit *)
PackedOf(e, Qk, P) ==
    /\ Qk.c = 1 /\ ZVal(e, Qk) = <<1>>
    /\ FAbs(e, Qk.y) = EdAbs(e, P).y
    /\ BNorm(Qk.x) \in {<<>>, <<1>>}

(***************************************************************************)
(* Parameters (the C18 relations for the Edwards set): the generator is a  *)
(* curve point of prime order n, the curve is complete (so the unified     *)
(* formulas the library uses are the group law), h n lies in the Hasse     *)
(* interval; for identifier 1 the constants are those of edwards25519      *)
(* (RFC 7748 / RFC 8032), written out here independently of the library.   *)
(***************************************************************************)
P25519 == BSub(BShl(<<1>>, 255), <<19>>)
N25519 == BAdd(BShl(<<1>>, 252), <<237, 211, 245, 92, 26, 99, 18, 88, 214, 156, 247, 162, 222, 249, 222, 20>>)
D25519 == FMul(FNeg(BFromNat(121665), P25519), FInv(BFromNat(121666), P25519), P25519)
GY25519 == FMul(<<4>>, FInv(<<5>>, P25519), P25519)
ParamOk(e) ==
    LET c == Crv(e)
        G == EdAbs(e, e.R)
        n == BNorm(e.k.d)
        h == BNorm(e.m.d)
        N == BMul(n, h)
        p1 == BAdd(c.p, <<1>>)
        df == IF BLe(N, p1) THEN BSub(p1, N) ELSE BSub(N, p1)
    IN  /\ Ok(e) /\ RepOk(e, e.R, e.add)
        /\ e.k.s = 0 /\ e.m.s = 0 /\ n = BNorm(e.n.d) /\ h = BNorm(e.h.d)
        /\ BIsPrime(c.p) /\ EComplete(c)
        /\ EOnCurve(G, c) /\ BIsPrime(n) /\ EHasPrimeOrder(G, n, c)
        /\ BLe(BMul(df, df), BShl(c.p, 2))                         \* |p + 1 - h n| <= 2 sqrt(p)
        /\ BMod(h, <<4>>) = <<>>
        /\ (e.id = 1 => /\ c.p = P25519 /\ c.a = BSub(P25519, <<1>>) /\ c.d = D25519
                        /\ n = N25519 /\ h = <<8>> /\ G.y = GY25519 /\ BBit(G.x, 0) = 0
                        /\ e.level = 128)

EdAccept(e) ==
    LET c == Crv(e) IN
    CASE e.op \in NegOps ->
            RepOk(e, e.P, SysOf(e)) /\ OnC(e, e.P) /\ RetPoint(e, ENeg(EdAbs(e, e.P), c))
      [] e.op \in DblOps ->
            RepOk(e, e.P, SysOf(e)) /\ OnC(e, e.P) /\ RetPoint(e, EDbl(EdAbs(e, e.P), c))
      [] e.op \in AddOps ->
            /\ RepOk(e, e.P, SysOf(e)) /\ RepOk(e, e.Q, SysOf(e)) /\ OnC(e, e.P) /\ OnC(e, e.Q)
            /\ RetPoint(e, EAdd(EdAbs(e, e.P), EdAbs(e, e.Q), c))
      [] e.op \in SubOps ->
            /\ RepOk(e, e.P, SysOf(e)) /\ RepOk(e, e.Q, SysOf(e)) /\ OnC(e, e.P) /\ OnC(e, e.Q)
            /\ RetPoint(e, ESub(EdAbs(e, e.P), EdAbs(e, e.Q), c))
      [] e.op = "ed_norm" ->
            RepOk(e, e.P, GenSys(e)) /\ OnC(e, e.P) /\ RetNormal(e, EdAbs(e, e.P))
      [] e.op \in {"ed_copy", "ed_blind"} ->
            RepOk(e, e.P, e.add) /\ OnC(e, e.P) /\ RetPoint(e, EdAbs(e, e.P))
      [] e.op = "ed_norm_sim" ->
            /\ Len(e.ps) = e.cnt /\ Len(e.rs) = e.cnt /\ Ok(e)
            /\ \A i \in 1..e.cnt :
                  /\ RepOk(e, e.ps[i], GenSys(e)) /\ OnC(e, e.ps[i])
                  /\ RepPoint(e, e.rs[i], EdAbs(e, e.ps[i]), e.add) /\ ZVal(e, e.rs[i]) = <<1>>
      [] e.op = "ed_cmp" ->
            /\ RepOk(e, e.P, GenSys(e)) /\ RepOk(e, e.Q, GenSys(e)) /\ Ok(e)
            /\ ((e.ret = e.EQ) <=> EEq(EdAbs(e, e.P), EdAbs(e, e.Q)))
      [] e.op = "ed_on_curve" ->
            /\ ValidTag(e.P) /\ ECanon(e, e.P) /\ FCanon(e, e.P.t) /\ Ok(e) /\ e.ret \in {0, 1}
            \* EXTND builds also test T Z = X Y, except on the neutral element (nothing is claimed for it then)
            /\ IF e.add = 3 /\ ZVal(e, e.P) # <<>> /\ ~TOk(e, e.P) /\ EIsO(EdAbs(e, e.P)) THEN TRUE
               ELSE (e.ret = 1) <=> (ZVal(e, e.P) # <<>> /\ OnC(e, e.P) /\ (e.add = 3 => TOk(e, e.P)))
      [] e.op = "ed_is_infty" ->
            RepOk(e, e.P, 2) /\ Ok(e) /\ e.ret \in {0, 1} /\ ((e.ret = 1) <=> EIsO(EdAbs(e, e.P)))
      [] e.op = "witness" ->          \* input qualification: the point has the order the generator claims
            /\ RepOk(e, e.P, GenSys(e)) /\ Ok(e) /\ e.ret = 1 /\ OnC(e, e.P)
            /\ IF e.ord = 0 THEN EHasPrimeOrder(EdAbs(e, e.P), BNorm(e.n.d), c)
               ELSE e.ord \in {2, 4, 8} /\ EHasOrder2Pow(EdAbs(e, e.P), e.ord, c)
      [] e.op \in MulOps ->
            /\ (e.op \in {"ed_mul_fix", "ed_mul_fix_basic", "ed_mul_fix_combs", "ed_mul_fix_combd",
                          "ed_mul_fix_lwnaf"} => e.perr = 0)
            /\ RepOk(e, e.P, SysOf(e)) /\ OnC(e, e.P) /\ RetPoint(e, KP(e, e.k, e.P))
      [] e.op = "ed_mul_dig" ->
            /\ RepOk(e, e.P, SysOf(e)) /\ OnC(e, e.P)
            /\ RetPoint(e, EMul(FALSE, BNorm(e.dg), EdAbs(e, e.P), c))
      [] e.op \in SimOps ->
            /\ RepOk(e, e.P, SysOf(e)) /\ RepOk(e, e.Q, SysOf(e)) /\ OnC(e, e.P) /\ OnC(e, e.Q)
            /\ RetPoint(e, EAdd(KP(e, e.k, e.P), KP(e, e.m, e.Q), c))
      [] e.op = "ed_mul_sim_lot" ->
            /\ Len(e.ps) = e.cnt /\ Len(e.ks) = e.cnt
            /\ \A i \in 1..Len(e.ps) : RepOk(e, e.ps[i], SysOf(e)) /\ OnC(e, e.ps[i])
            /\ RetPoint(e, SumKP(e))
      [] e.op = "ed_pck" ->
            /\ RepOk(e, e.P, IF e.add = 3 THEN 3 ELSE 1) /\ OnC(e, e.P) /\ Ok(e)
            /\ PackedOf(e, e.R, e.P)
      [] e.op = "ed_upk" ->           \* both bits: R, ret for the bit given, R2, ret2 for the other one
            LET y == FAbs(e, e.P.y)
                b == IF BNorm(e.P.x) = <<>> THEN 0 ELSE 1
                Good(R, ret) == /\ ret = 1 /\ RepPoint(e, R, EdAbs(e, R), e.add) /\ ZVal(e, R) = <<1>>
                                /\ EIsUpkOf(EdAbs(e, R), y, c)
            IN  /\ ECanon(e, e.P) /\ EHasX(y, c) /\ Ok(e)
                /\ IF EXSquared(y, c) = <<>>
                   THEN \* x = 0 (y = 1, y = -1): one decompression, with the bit clear; the other bit is refused
                        IF b = 0 THEN Good(e.R, e.ret) /\ e.ret2 = 0 ELSE e.ret = 0 /\ Good(e.R2, e.ret2)
                   ELSE /\ Good(e.R, e.ret) /\ Good(e.R2, e.ret2)
                        /\ EEq(EdAbs(e, e.R2), ENeg(EdAbs(e, e.R), c))
      [] e.op = "ed_pck_upk" ->       \* round trip
            /\ RepOk(e, e.P, IF e.add = 3 THEN 3 ELSE 1) /\ OnC(e, e.P) /\ Ok(e) /\ e.ret = 1
            /\ PackedOf(e, e.Q, e.P)
            /\ RepPoint(e, e.R, EdAbs(e, e.P), e.add) /\ ZVal(e, e.R) = <<1>>
      [] e.op = "ed_write_bin" ->
            LET X == EdAbs(e, e.P)
                need == BinSize(e, X, e.pack)
            IN  /\ RepOk(e, e.P, GenSys(e)) /\ OnC(e, e.P) /\ e.pack \in {0, 1}
                /\ e.guard = <<90, 90, 90, 90>>                   \* nothing written past len
                /\ IF e.len >= need
                   THEN /\ Ok(e) /\ e.size = need
                        /\ IsBinOf(e, Sub(e.bin, 1, need), X, e.pack)
                        /\ AllZero(Sub(e.bin, need + 1, e.len))
                   ELSE Thrown(e) /\ e.unch
      [] e.op = "ed_read_bin" ->
            IF ReadValid(e, e.bin)
            THEN Ok(e) /\ RepPoint(e, e.R, EdAbs(e, e.R), e.add) /\ ReadOk(e, e.R, e.bin)
            ELSE Thrown(e) /\ e.unch
      [] e.op = "ed_bin_rt" ->        \* round trip
            LET X == EdAbs(e, e.P) IN
            /\ RepOk(e, e.P, GenSys(e)) /\ OnC(e, e.P) /\ e.pack \in {0, 1} /\ Ok(e)
            /\ e.size = BinSize(e, X, e.pack) /\ IsBinOf(e, e.bin, X, e.pack)
            /\ RepPoint(e, e.R, X, e.add)
      [] e.op \in {"ed_map", "ed_map_dst"} ->
            /\ Ok(e) /\ e.R = e.R2                                  \* deterministic
            /\ RepPoint(e, e.R, EdAbs(e, e.R), e.add)
            /\ OnC(e, e.R)
            /\ EIsO(EMulNat(BNorm(e.n.d), EdAbs(e, e.R), c))       \* in the subgroup of order n
      [] e.op = "ed_rand" ->
            /\ Ok(e) /\ RepPoint(e, e.R, EdAbs(e, e.R), e.add) /\ OnC(e, e.R)
            /\ EIsO(EMulNat(BNorm(e.n.d), EdAbs(e, e.R), c))
      [] e.op = "ed_set_infty" -> RetPoint(e, EO)
      [] e.op = "ed_param" -> ParamOk(e)
      [] e.op = "curve_probe" -> TRUE          \* input discovery, nothing claimed
      [] e.op = "restart" -> TRUE              \* resume marker after an event with crash # 0
      [] OTHER -> FALSE

(***************************************************************************)
(* Known findings (/verif/known_findings.json): enabled only for the op +  *)
(* input class + the kind of wrong outcome the finding describes.          *)
(*                                                                         *)
(* C17-mul-long-scalar-throws / C17-mul-long-scalar-wrong: no ed_mul       *)
(* routine reduces the scalar modulo the group order, and most of them     *)
(* recode it into buffers / walk tables dimensioned for RLC_FP_BITS (or    *)
(* bits(n)) without a usable capacity check:                               *)
(*  - w-NAF / sliding-window / window based routines (ed_mul_lwnaf,        *)
(*    ed_mul_slide, ed_mul_fix_lwnaf, ed_mul_sim_inter/_basic/_trick/_gen, *)
(*    first scalar of ed_mul_sim_joint) THROW for a scalar of more than    *)
(*    RLC_FP_BITS bits (bn_rec_naf / bn_rec_slw / bn_rec_win / bn_rec_jsf  *)
(*    report ERR_NO_BUFFER);                                               *)
(*  - table based routines return a WRONG point silently (or read past the *)
(*    table): ed_mul_fix_basic for more than bits(n) bits (reads table     *)
(*    entries that were never computed), ed_mul_fix_combs / _combd (and    *)
(*    ed_mul_gen / ed_mul_fix through them) for more than                  *)
(*    RLC_DEPTH * ceil(bits(n) / RLC_DEPTH) bits (higher bits are          *)
(*    ignored); ed_mul_lwreg copies all digits of k into a buffer of       *)
(*    ceil(RLC_FP_BITS / RLC_DIG) digits (stack overrun, wrong point);     *)
(*    ed_mul_sim_joint checks the buffer against the FIRST scalar only: a  *)
(*    longer second scalar overruns the stack buffer jsf[].                *)
(*                                                                         *)
(* C17-simtrick-short-scalar: ed_mul_sim_trick recodes with                *)
(* bn_rec_win(w = RLC_WIDTH / 2), whose mixed int / size_t arithmetic      *)
(* wraps for scalars shorter than w bits (|k| = 1 for w = 2): the window   *)
(* loop runs past the buffer (SIGSEGV).                                    *)
(*                                                                         *)
(* C17-lwreg-extnd-even-t: ed_mul_reg_imp guards the copy of the T         *)
(* coordinate of the even-scalar correction with the misspelt              *)
(* "#if ED_Afp == EXTND" (never true): in EXTND builds an even k returns   *)
(* the right X, Y, Z with a T that does not satisfy T Z = X Y, so the      *)
(* result is not a valid extended point (a following ed_add gives a wrong  *)
(* sum).                                                                   *)
(*                                                                         *)
(* C17-normsim-neutral: ed_norm_sim skips the copy of the inverted Z for   *)
(* an entry that is the neutral element but still multiplies X and Y by    *)
(* r[i]->z: unless it runs in place on an entry with Z = 1, the neutral    *)
(* element (0 : Z : Z) comes back as (0, Z^2) resp. (0, stale) - not the   *)
(* neutral element, in general not a curve point.                          *)
(***************************************************************************)
CeilDiv(x, y) == (x + y - 1) \div y
KBits(k) == BBits(BNorm(k.d))
NBits(e) == BBits(BNorm(e.n.d))
CombCap(e) == e.dep * CeilDiv(NBits(e), e.dep)
(* the algorithm behind a configurable entry point: ED_MUL 1 BASIC 2 SLIDE 3 MONTY 4 LWNAF 5 LWREG;   *)
(* ED_FIX 1 BASIC 2 COMBS 3 COMBD 4 LWNAF; ED_SIM 1 BASIC 2 TRICK 3 INTER 4 JOINT                     *)
MulAlg(e) == CASE e.op = "ed_mul" -> e.mul [] e.op = "ed_mul_basic" -> 1 [] e.op = "ed_mul_slide" -> 2
               [] e.op = "ed_mul_monty" -> 3 [] e.op = "ed_mul_lwnaf" -> 4 [] e.op = "ed_mul_lwreg" -> 5 [] OTHER -> 0
FixAlg(e) == CASE e.op \in {"ed_mul_fix", "ed_mul_gen"} -> e.fix [] e.op = "ed_mul_fix_basic" -> 1
               [] e.op = "ed_mul_fix_combs" -> 2 [] e.op = "ed_mul_fix_combd" -> 3
               [] e.op = "ed_mul_fix_lwnaf" -> 4 [] OTHER -> 0
SimAlg(e) == CASE e.op \in {"ed_mul_sim", "ed_mul_sim_gen"} -> e.sim [] e.op = "ed_mul_sim_basic" -> 1
               [] e.op = "ed_mul_sim_trick" -> 2 [] e.op = "ed_mul_sim_inter" -> 3
               [] e.op = "ed_mul_sim_joint" -> 4 [] OTHER -> 0
NoCap == 1000000
MulCap(e, alg) == CASE alg = 2 -> e.fpb + 1 [] alg \in {4, 5} -> e.fpb [] OTHER -> NoCap
FixCap(e, alg) == CASE alg = 1 -> NBits(e) [] alg \in {2, 3} -> CombCap(e) [] alg = 4 -> e.fpb [] OTHER -> NoCap
Min(x, y) == IF x <= y THEN x ELSE y
(* simultaneous routines fall back to ed_mul / ed_mul_gen when a scalar is 0 or a point is the neutral element *)
SimCap(e) == LET own == CASE SimAlg(e) = 2 -> 2 * CeilDiv(e.fpb, 2) [] SimAlg(e) \in {3, 4} -> e.fpb [] OTHER -> NoCap
                 viaMul == MulCap(e, e.mul)
                 viaGen == IF e.op = "ed_mul_sim_gen" THEN FixCap(e, e.fix) ELSE NoCap
             IN  Min(own, Min(viaMul, viaGen))
ScalarsOf(e) == IF e.op \in SimOps THEN {e.k, e.m} ELSE {e.k}
CapOf(e) == IF e.op \in SimOps THEN SimCap(e)
            ELSE IF FixAlg(e) # 0 THEN FixCap(e, FixAlg(e)) ELSE MulCap(e, MulAlg(e))
LongScalar(e) == \E k \in ScalarsOf(e) : KBits(k) > CapOf(e)
(* routines whose failure mode is silent (wrong point / overrun) rather than a thrown error *)
SilentKind(e) == \/ FixAlg(e) \in {1, 2, 3}
                 \/ MulAlg(e) = 5
                 \/ (SimAlg(e) = 4 /\ KBits(e.k) <= e.fpb)
                 \/ (e.op = "ed_mul_sim_gen" /\ BNorm(e.m.d) = <<>>)
MulPre(e) == /\ RepOk(e, e.P, SysOf(e)) /\ OnC(e, e.P)
             /\ (e.op \in SimOps => RepOk(e, e.Q, SysOf(e)) /\ OnC(e, e.Q))
MulWant(e) == IF e.op \in SimOps THEN EAdd(KP(e, e.k, e.P), KP(e, e.m, e.Q), Crv(e)) ELSE KP(e, e.k, e.P)
NormSimBad(e, i) == EIsO(EdAbs(e, e.ps[i])) /\ ~(e.al = 1 /\ ZVal(e, e.ps[i]) = <<1>>)

EdKnownKey(e) ==
    CASE /\ e.op \in (MulOps \cup SimOps) /\ MulPre(e) /\ LongScalar(e)
         /\ Thrown(e) /\ e.code = 1
            -> "C17-mul-long-scalar-throws"
      [] /\ e.op \in (MulOps \cup SimOps) /\ MulPre(e) /\ LongScalar(e) /\ SilentKind(e)
         /\ IF e.crash # 0 THEN TRUE
            ELSE Ok(e) /\ ValidTag(e.R) /\ ~RepPoint(e, e.R, MulWant(e), 2)
            -> "C17-mul-long-scalar-wrong"
      [] /\ e.op \in SimOps /\ SimAlg(e) = 2 /\ e.op # "ed_mul_sim_gen" /\ MulPre(e)
         /\ BNorm(e.k.d) # <<>> /\ BNorm(e.m.d) # <<>>
         /\ ~EIsO(EdAbs(e, e.P)) /\ ~EIsO(EdAbs(e, e.Q))
         /\ (KBits(e.k) < e.wd \div 2 \/ KBits(e.m) < e.wd \div 2)
         /\ e.crash # 0
            -> "C17-simtrick-short-scalar"
      [] /\ e.op \in {"ed_mul", "ed_mul_lwreg"} /\ MulAlg(e) = 5 /\ e.add = 3 /\ MulPre(e)
         /\ BBit(e.k.d, 0) = 0 /\ BNorm(e.k.d) # <<>> /\ ~EIsO(EdAbs(e, e.P))
         /\ Ok(e) /\ RepPoint(e, e.R, MulWant(e), 2) /\ ~TOk(e, e.R)
            -> "C17-lwreg-extnd-even-t"
      [] /\ e.op = "ed_norm_sim" /\ Len(e.ps) = e.cnt /\ Len(e.rs) = e.cnt /\ Ok(e)
         /\ \A i \in 1..e.cnt : RepOk(e, e.ps[i], GenSys(e)) /\ OnC(e, e.ps[i])
         /\ \E i \in 1..e.cnt : NormSimBad(e, i)
         /\ \A i \in 1..e.cnt :
               IF NormSimBad(e, i) THEN FAbs(e, e.rs[i].x) = <<>>       \* X = 0 survives, Y is scaled
               ELSE RepPoint(e, e.rs[i], EdAbs(e, e.ps[i]), e.add) /\ ZVal(e, e.rs[i]) = <<1>>
            -> "C17-normsim-neutral"
      [] OTHER -> ""
=============================================================================
