------------------------------ MODULE SqrtMod ------------------------------
(***************************************************************************)
(* Square roots in Z/pZ (p an odd prime) and in a quadratic extension      *)
(* F_p[i]/(i^2 - q) over BigNat residues, written from the textbook:       *)
(*   p = 3 mod 4        r = a^((p+1)/4)                                     *)
(*   otherwise          Tonelli-Shanks (p - 1 = Q 2^S, z a non-residue)    *)
(*   F_p2               through the norm (the "complex method")            *)
(* The maps of C13 use them as follows: the spec computes g(x), asks for   *)
(* A root and then fixes the sign by the sgn0 rule, so WHICH root the      *)
(* operators below return never matters - only that r^2 = a, which the     *)
(* model MCSqrtMod checks for every prime below its bound and every a,     *)
(* and which MapSpec re-asserts on every use (IsSqrtOf).                   *)
(* FSqrt / F2Sqrt return the root for squares and the value "none"         *)
(* (<<256>>, not a BigNat) otherwise.                                      *)
(***************************************************************************)
EXTENDS Field

SqrtNone == <<256>>

(* p - 1 = Q * 2^S with Q odd: <<Q, S>> *)
RECURSIVE TwoAdicR(_, _)
TwoAdicR(q, s) == IF BBit(q, 0) = 1 THEN <<q, s>> ELSE TwoAdicR(BShr(q, 1), s + 1)
TwoAdic(p) == TwoAdicR(BSub(p, <<1>>), 0)

(* least quadratic non-residue 2, 3, ... *)
RECURSIVE NonResidueR(_, _)
NonResidueR(z, p) == IF FLegendre(z, p) = 0 - 1 THEN z ELSE NonResidueR(BAdd(z, <<1>>), p)
NonResidue(p) == NonResidueR(<<2>>, p)

(* least i in 0..m with t^(2^i) = 1 (exists for t in the 2-Sylow subgroup) *)
RECURSIVE OrdLog2(_, _, _)
OrdLog2(t, i, p) == IF t = <<1>> THEN i ELSE OrdLog2(FSqr(t, p), i + 1, p)

RECURSIVE SqrN(_, _, _)
SqrN(b, n, p) == IF n = 0 THEN b ELSE SqrN(FSqr(b, p), n - 1, p)

RECURSIVE TSLoop(_, _, _, _, _)
TSLoop(m, c, t, r, p) ==
    IF t = <<1>> THEN r
    ELSE LET i == OrdLog2(t, 0, p)
             b == SqrN(c, m - i - 1, p)
             c2 == FSqr(b, p)
         IN  TSLoop(i, c2, FMul(t, c2, p), FMul(r, b, p), p)

TonelliShanks(a, p) ==
    LET qs == TwoAdic(p)
        q == qs[1]
        s == qs[2]
        z == NonResidue(p)
    IN  TSLoop(s, FExp(z, q, p), FExp(a, q, p), FExp(a, BShr(BAdd(q, <<1>>), 1), p), p)

FSqrt(a, p) ==
    IF a = <<>> THEN <<>>
    ELSE IF FLegendre(a, p) # 1 THEN SqrtNone
    ELSE IF BBit(p, 0) = 1 /\ BBit(p, 1) = 1 THEN FExp(a, BShr(BAdd(p, <<1>>), 2), p)
    ELSE TonelliShanks(a, p)

(* ---- F_p2 = F_p[i]/(i^2 - q), q a non-residue; elements <<a0, a1>> ---- *)
Q2Mul(x, y, q, p) == <<FAdd(FMul(x[1], y[1], p), FMul(q, FMul(x[2], y[2], p), p), p),
                       FAdd(FMul(x[1], y[2], p), FMul(x[2], y[1], p), p)>>
Q2Norm(x, q, p) == FSub(FSqr(x[1], p), FMul(q, FSqr(x[2], p), p), p)
Q2IsSquare(x, q, p) == FLegendre(Q2Norm(x, q, p), p) >= 0
F2Sqrt(x, q, p) ==
    IF x[2] = <<>> THEN
        (IF FLegendre(x[1], p) >= 0 THEN <<FSqrt(x[1], p), <<>>>>
         ELSE <<<<>>, FSqrt(FMul(x[1], FInv(q, p), p), p)>>)
    ELSE IF ~Q2IsSquare(x, q, p) THEN SqrtNone
    ELSE LET s  == FSqrt(Q2Norm(x, q, p), p)
             d1 == FHlv(FAdd(x[1], s, p), p)
             d  == IF FLegendre(d1, p) = 1 THEN d1 ELSE FHlv(FSub(x[1], s, p), p)
             r0 == FSqrt(d, p)
         IN  <<r0, FMul(x[2], FInv(FDbl(r0, p), p), p)>>
=============================================================================
