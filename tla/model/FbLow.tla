-------------------------------- MODULE FbLow --------------------------------
(***************************************************************************)
(* Design-level model of the anchored low-level mechanisms of C16, written *)
(* AS CODED in src/low/easy (one operator per loop / branch), over digits  *)
(* of W = 8 bits (the tiny-world builds) resp. W = 4 bits and small m:     *)
(*   MulnLow   fb_muln_low: Lopez-Dahab comb multiplication with a 4-bit   *)
(*             window - table of u*b for the 16 nibbles u built digit by   *)
(*             digit with carried top bits, comb over the nibble columns   *)
(*             of a with a 4-bit shift of the double-length accumulator    *)
(*             between columns                                             *)
(*   RdcnLow   fb_rdcn_low = fb_rdct_low (trinomial) / fb_rdcp_low         *)
(*             (pentanomial): digit-wise folding of the high digits with   *)
(*             the shift amounts derived by RLC_RIP, then the partial top  *)
(*             digit                                                       *)
(*   Rdc1Low   fb_rdc1_low: reduction of an (fd+1)-digit value             *)
(*   Mul1Low   fb_mul1_low: multiplication by one digit                    *)
(* checked exhaustively against lib/GF2m: the product of every operand     *)
(* pair (a over every value; b every digit resp. Bs) is GMulPoly; that of   *)
(* EVERY double-length value of degree <= 2m-2 (every value below 2^8(fd+1)*)
(* for Rdc1Low) equals GModPoly, for each configured (m, exponents).       *)
(* Digit vectors are sequences of 0..255, index 1 = digit 0.               *)
(***************************************************************************)
EXTENDS GF2m, Integers, TLC
CONSTANTS W,           \* digit bits: 8 (tiny-world builds; 4-bit comb window = half a digit) or 4
          Modes,       \* subset of {"mul", "rdc", "rdc1"}
          Level,       \* which set of fields
          MulDigs,     \* digit counts for the comb multiplication
          Bs,          \* second operands of the comb multiplication (as naturals), any digit count
          Digs1        \* digits of the multiplication by one digit
(* <<m, fa, fb, fc>> (fb = fc = 0: trinomial).  The fast reduction folds a high digit into lower ones only  *)
(* when m - fa >= W (true for every shipped polynomial: 283 - 12 >= 64, and for the tiny worlds 17 - 9 >= 8); *)
(* the sets cover m - e = 0 (mod W) (whole-digit shifts), exponents at and across digit boundaries.           *)
Fields == CASE Level = 1 -> {<<9, 1, 0, 0>>}
            [] Level = 4 -> {<<9, 1, 0, 0>>, <<9, 4, 0, 0>>, <<9, 5, 0, 0>>, <<9, 4, 2, 1>>, <<9, 4, 3, 1>>, <<9, 5, 3, 2>>,
                             <<9, 5, 4, 1>>}
            [] Level = 2 -> {<<9, 1, 0, 0>>, <<9, 4, 0, 0>>, <<9, 5, 0, 0>>, <<9, 4, 2, 1>>, <<9, 4, 3, 1>>, <<9, 5, 3, 2>>,
                             <<9, 5, 4, 1>>, <<10, 3, 0, 0>>, <<10, 3, 2, 1>>, <<10, 5, 2, 1>>, <<10, 6, 5, 2>>}
            [] OTHER -> {<<9, 1, 0, 0>>, <<9, 4, 0, 0>>, <<9, 5, 0, 0>>, <<9, 4, 2, 1>>, <<9, 4, 3, 1>>, <<9, 5, 3, 2>>,
                         <<9, 5, 4, 1>>, <<10, 3, 0, 0>>, <<10, 3, 2, 1>>, <<10, 4, 3, 2>>, <<10, 5, 2, 1>>, <<10, 6, 5, 2>>,
                         <<10, 6, 4, 1>>, <<11, 2, 0, 0>>, <<11, 7, 3, 2>>}
VARIABLES mode, fld, v, go

DM == Pow2(W)
Shl(d, n) == (d * Pow2(n)) % DM
Shr(d, n) == d \div Pow2(n)

RECURSIVE ToDigs(_, _)
ToDigs(n, k) == IF k = 0 THEN <<>> ELSE <<n % DM>> \o ToDigs(n \div DM, k - 1)
(* the value of a digit vector as a BigNat *)
RECURSIVE PackR(_, _)
PackR(c, i) == IF i > Len(c) THEN <<>> ELSE BAdd(BFromNat(c[i]), BShl(PackR(c, i + 1), W))
ValOf(c) == IF W = 8 THEN BNorm(c) ELSE PackR(c, 1)
(* xor d into digit index i (0-based) of vector c *)
XorAt(c, i, d) == [c EXCEPT ![i + 1] = c[i + 1] ^^ d]

(* ------------------------------------------------------------------ fb_muln_low *)
(* the table: t[u] (u = 0..15) has D + 1 digits *)
NibSel(u, r1, r2, r4, r8) ==
    ((IF u % 2 = 1 THEN r1 ELSE 0) ^^ (IF (u \div 2) % 2 = 1 THEN r2 ELSE 0))
    ^^ ((IF (u \div 4) % 2 = 1 THEN r4 ELSE 0) ^^ (IF (u \div 8) % 2 = 1 THEN r8 ELSE 0))
RECURSIVE TabRow(_, _, _, _, _)
TabRow(u, b, D, i, prev) ==       \* digits i..D-1 then the top digit
    IF i = D THEN <<NibSel(u, 0, Shr(prev, W - 1), Shr(prev, W - 2), Shr(prev, W - 3))>>
    ELSE LET r0 == b[i + 1]
             r2 == Shl(r0, 1) ^^ Shr(prev, W - 1)        \* (r0 << 1) | (u >> (W-1)): disjoint bits
             r4 == Shl(r0, 2) ^^ Shr(prev, W - 2)
             r8 == Shl(r0, 3) ^^ Shr(prev, W - 3)
         IN  <<NibSel(u, r0, r2, r4, r8)>> \o TabRow(u, b, D, i + 1, r0)
Table(b, D) == [u \in 0..15 |-> TabRow(u, b, D, 0, 0)]

(* c[j .. j+D-1] ^= t[0..D-1]; c[j+D] ^= t[D] *)
RECURSIVE AddRow(_, _, _, _, _)
AddRow(c, t, j, D, i) == IF i > D THEN c ELSE AddRow(XorAt(c, j + i, t[i + 1]), t, j, D, i + 1)
RECURSIVE Column(_, _, _, _, _, _)
Column(c, a, tab, D, sh, j) ==      \* for (j = 0; j < D; j++) with the nibble of a[j] at bit sh
    IF j = D THEN c
    ELSE Column(AddRow(c, tab[Shr(a[j + 1], sh) % 16], j, D, 0), a, tab, D, sh, j + 1)
(* fb_lshb_low over n digits starting at offset off; returns <<vector, carry>> *)
RECURSIVE LshbR(_, _, _, _, _, _)
LshbR(c, off, n, bits, i, carry) ==
    IF i = n THEN <<c, carry>>
    ELSE LET d == c[off + i + 1] IN
         LshbR([c EXCEPT ![off + i + 1] = Shl(d, bits) ^^ carry], off, n, bits, i + 1, Shr(d, W - bits))
Shift4(c, D) ==       \* carry = lshb(c, 4); lshb(c + D, 4); c[D] ^= carry
    LET lo == LshbR(c, 0, D, 4, 0, 0)
        hi == LshbR(lo[1], D, D, 4, 0, 0)
    IN  XorAt(hi[1], D, lo[2])
RECURSIVE Comb(_, _, _, _, _)
Comb(c, a, tab, D, sh) ==          \* for (i = W - 4; i > 0; i -= 4) { column; shift } then the last column
    IF sh = 0 THEN Column(c, a, tab, D, 0, 0)
    ELSE Comb(Shift4(Column(c, a, tab, D, sh, 0), D), a, tab, D, sh - 4)
MulnLow(a, b, D) == Comb(ToDigs(0, 2 * D), a, Table(b, D), D, W - 4)

(* ------------------------------------------------------------------ fb_mul1_low *)
RECURSIVE BitsDig(_)
BitsDig(d) == IF d = 0 THEN 0 ELSE 1 + BitsDig(d \div 2)
RECURSIVE Mul1Bit(_, _, _, _, _, _)
Mul1Bit(c, a, D, i, k, b1) ==      \* c[k] ^= (a[k] << i) | (b1 >> (W - i)) for k = 1..D-1, then the top
    IF k = D THEN XorAt(c, D, Shr(b1, W - i))
    ELSE Mul1Bit(XorAt(c, k, Shl(a[k + 1], i) ^^ Shr(b1, W - i)), a, D, i, k + 1, a[k + 1])
RECURSIVE Mul1Loop(_, _, _, _, _)
Mul1Loop(c, a, D, dg, i) ==
    IF i <= 0 THEN c
    ELSE IF (dg \div Pow2(i)) % 2 = 1
         THEN Mul1Loop(Mul1Bit(XorAt(c, 0, Shl(a[1], i)), a, D, i, 1, a[1]), a, D, dg, i - 1)
         ELSE Mul1Loop(c, a, D, dg, i - 1)
Mul1Low(a, dg, D) ==
    IF dg = 0 THEN ToDigs(0, D + 1)
    ELSE IF dg = 1 THEN a \o <<0>>
    ELSE LET top == BitsDig(dg) - 1
             s == LshbR(a, 0, D, top, 0, 0)
             c0 == s[1] \o <<s[2]>>
             c1 == Mul1Loop(c0, a, D, dg, top - 1)
         IN  IF dg % 2 = 1 THEN [i \in 1..(D + 1) |-> IF i <= D THEN c1[i] ^^ a[i] ELSE c1[i]] ELSE c1

(* ------------------------------------------------------------------ fb_rdcn_low *)
(* RLC_RIP(b, d, v): d = v >> 3, b = v - 8 d *)
RipD(x) == x \div W
RipB(x) == x % W
(* one term of the folding step for digit value d at index i: shift amounts of exponent e (0 for x^m -> 1) *)
FoldTerm(a, i, d, m, e) ==
    LET r == RipB(m - e)
        s == RipD(m - e) + 1
    IN  IF r = 0 THEN XorAt(a, i - s + 1, d)
        ELSE XorAt(XorAt(a, i - s + 1, Shr(d, r)), i - s, Shl(d, W - r))
RECURSIVE FoldHigh(_, _, _, _, _)
FoldHigh(a, i, m, es, sh) ==       \* for (i = 2 D - 1; i >= sh; i--)
    IF i < sh THEN a
    ELSE LET d == a[i + 1]
             a0 == [a EXCEPT ![i + 1] = 0]
             a1 == FoldTerm(a0, i, d, m, 0)
             a2 == FoldTerm(a1, i, d, m, es[1])
             a3 == IF es[2] = 0 THEN a2 ELSE FoldTerm(FoldTerm(a2, i, d, m, es[2]), i, d, m, es[3])
         IN  FoldHigh(a3, i - 1, m, es, sh)
(* the partial top digit: d = a[sh-1] >> rh; a[0] ^= d; d <<= rh; each exponent; a[sh-1] ^= d *)
TopTerm(a, d, m, e, sh) ==
    LET r == RipB(m - e)
        s == RipD(m - e) + 1
    IN  IF r = 0 THEN XorAt(a, sh - s, d)
        ELSE LET a1 == XorAt(a, sh - s, Shr(d, r)) IN
             IF sh > s THEN XorAt(a1, sh - s - 1, Shl(d, W - r)) ELSE a1
FoldTop(a, m, es) ==
    LET rh == RipB(m)
        sh == RipD(m) + 1
        d0 == Shr(a[sh], rh)
        a0 == XorAt(a, 0, d0)
        d  == Shl(d0, rh)
        a1 == TopTerm(a0, d, m, es[1], sh)
        a2 == IF es[2] = 0 THEN a1 ELSE TopTerm(TopTerm(a1, d, m, es[2], sh), d, m, es[3], sh)
    IN  XorAt(a2, sh - 1, d)
(* m % W # 0 in every configuration of the model (as for 283 and 17) *)
RdcnLow(a, m, es, D) == SubSeq(FoldTop(FoldHigh(a, 2 * D - 1, m, es, RipD(m) + 1), m, es), 1, D)

(* fb_rdc1_low: one extra digit at index D *)
Rdc1Low(a, m, es, D) ==
    LET d  == a[D + 1]
        a0 == [a EXCEPT ![D + 1] = 0]
        a1 == FoldTerm(a0, D, d, m, 0)
        a2 == FoldTerm(a1, D, d, m, es[1])
        a3 == IF es[2] = 0 THEN a2 ELSE FoldTerm(FoldTerm(a2, D, d, m, es[2]), D, d, m, es[3])
        sh == RipD(m) + 1
        t  == Shr(a3[sh], RipB(m))
    IN  SubSeq(IF t = 0 THEN a3 ELSE FoldTop(a3, m, es), 1, D)

(* ------------------------------------------------------------------ the checks *)
PolyF(c) == LET x(n) == BShl(<<1>>, n) IN
            IF c[3] = 0 THEN GAdd(GAdd(x(c[1]), x(c[2])), <<1>>)
            ELSE GAdd(GAdd(GAdd(x(c[1]), x(c[2])), GAdd(x(c[3]), x(c[4]))), <<1>>)
DigsOf(c) == (c[1] + W - 1) \div W

(* the invariants are evaluated on the successor states (go = TRUE) so that TLC's workers share the work *)
Init == /\ go = FALSE
        /\ mode \in Modes
        /\ \/ /\ mode = "mul" /\ fld \in MulDigs /\ v \in 0..(Pow2(W * fld - 4) - 1)
           \/ /\ mode = "rdc" /\ fld \in Fields /\ v \in 0..(Pow2(2 * fld[1] - 1 - 12) - 1)
           \/ /\ mode = "rdc1" /\ fld \in Fields /\ v \in 0..(Pow2(W * (DigsOf(fld) + 1) - 12) - 1)
Next == go = FALSE /\ go' = TRUE /\ UNCHANGED <<mode, fld, v>>
Spec == Init /\ [][Next]_<<mode, fld, v, go>>

MulOk ==
    (go /\ mode = "mul") =>
        LET D == fld IN
        \A lo \in 0..15 :
            LET a == ToDigs(v * 16 + lo, D) IN
            \* one digit: EVERY second operand; more digits: the operands Bs
            /\ \A bn \in (IF D = 1 THEN 0..(DM - 1) ELSE Bs) : bn < Pow2(W * D) =>
                    ValOf(MulnLow(a, ToDigs(bn, D), D)) = GMulPoly(ValOf(a), BFromNat(bn))
            /\ \A dg \in Digs1 : dg < DM =>
                    ValOf(Mul1Low(a, dg, D)) = GMulPoly(ValOf(a), BFromNat(dg))
(* 4096 values per state: v supplies the high bits, the low 12 bits are enumerated here *)
RdcOk ==
    (go /\ mode = "rdc") =>
        LET m == fld[1]
            D == DigsOf(fld)
            es == <<fld[2], fld[3], fld[4]>>
            f == PolyF(fld)
        IN  \A lo \in 0..4095 :
                LET t == ToDigs(v * 4096 + lo, 2 * D)
                    c == RdcnLow(t, m, es, D)
                IN  ValOf(c) = GModPoly(ValOf(t), f) /\ BBits(ValOf(c)) <= m
Rdc1Ok ==
    (go /\ mode = "rdc1") =>
        LET m == fld[1]
            D == DigsOf(fld)
            es == <<fld[2], fld[3], fld[4]>>
            f == PolyF(fld)
        \* every value of the top 12 bits (the extra digit and the bits around x^m) x 24 patterns below
        IN  \A lo \in {0, 1, 2, 4095, 4094, 2730, 1365, 2048, 2049, 1024, 512, 256, 255, 128, 127, 291, 3822, 3003,
                        1911, 64, 32, 16, 8, 4} :
                LET t == ToDigs(v * 4096 + lo, D + 1)
                    c == Rdc1Low(t, m, es, D)
                IN  ValOf(c) = GModPoly(ValOf(t), f) /\ BBits(ValOf(c)) <= m

ASSUME \A c \in Fields : GIsIrreducible(PolyF(c)) /\ c[1] % W # 0 /\ c[1] - c[2] >= W
=============================================================================
