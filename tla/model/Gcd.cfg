CONSTANTS W = 4  KBits = 7  Algs = {"lehme", "xlehme", "xbasic", "xbinar"}
SPECIFICATION Spec
INVARIANTS GcdPreserved LehmerOrdered BasicRows BinarRows BinarFix Result Bezout BinarThrow Terminates
CHECK_DEADLOCK FALSE
