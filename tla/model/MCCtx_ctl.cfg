CONSTANTS Params <- ParamsDef
          Kind <- KindDef
          Contexts = {"c1", "c2", "c3"}  Threads = {"t1", "t2"}  MaxSteps = 5  ResetCode = FALSE
SPECIFICATION Spec
INVARIANTS NoStaleState Independence SecondLifeIsFresh DeadHoldsNothing
CHECK_DEADLOCK FALSE
