----------------------------- MODULE MCBinCurve -----------------------------
(***************************************************************************)
(* The definition itself is checked: for EVERY ordinary binary curve       *)
(* y^2 + xy = x^3 + a x^2 + b (a any element, b # 0) over GF(2^m), field   *)
(* polynomial f in Polys, the operators of lib/BinCurve make the set of    *)
(* points an abelian group: closure, identity, inverse (-P = (x, x+y)),    *)
(* commutativity, associativity (ALL triples), [k]P = repeated addition,   *)
(* Lagrange, Hasse bound; exactly one point of order two, (0, sqrt b);     *)
(* halving: P has a half iff P = O or Tr(x_P) = Tr(a), and then exactly    *)
(* two; on Koblitz curves (a in {0,1}, b = 1) the Frobenius map is an      *)
(* endomorphism with tau^2 + 2 = mu*tau, mu = (-1)^(1-a).                  *)
(* One checked state per curve.                                           *)
(***************************************************************************)
EXTENDS BinCurve, FiniteSets, Integers, TLC
CONSTANTS Polys,
          AMax      \* coefficients a in 0..AMax (capped at the field size): the group law formulas involve a
                    \* itself, the isomorphism class only Tr(a) and b
VARIABLES f, a, b, go

RECURSIVE NDeg(_)
NDeg(n) == IF n = 0 THEN 0 - 1 ELSE 1 + NDeg(n \div 2)
Q == Pow2(NDeg(f))

(* the invariant is evaluated on the successor state (go = TRUE) so that TLC's workers share the curves *)
Init == /\ f \in Polys /\ a \in 0..(IF AMax < Pow2(NDeg(f)) THEN AMax ELSE Pow2(NDeg(f)) - 1) /\ b \in 1..(Pow2(NDeg(f)) - 1) /\ go = FALSE
Next == go = FALSE /\ go' = TRUE /\ UNCHANGED <<f, a, b>>
Spec == Init /\ [][Next]_<<f, a, b, go>>

C == [f |-> BFromNat(f), a |-> BFromNat(a), b |-> BFromNat(b)]
Points == {EInf} \cup {EPt(BFromNat(x), BFromNat(y)) : x \in 0..(Q - 1), y \in 0..(Q - 1)}
Group == {P \in Points : EOnCurve(P, C)}

RECURSIVE Rep(_, _)
Rep(n, P) == IF n = 0 THEN EInf ELSE EAdd(Rep(n - 1, P), P, C)

GroupLaw ==
    go =>
    LET G == Group
        N == Cardinality(G)
        T == EOrderTwo(C)
        mu == IF a = 0 THEN 0 - 1 ELSE 1
    IN
    /\ \A P \in G : /\ EAdd(P, EInf, C) = P /\ EAdd(EInf, P, C) = P
                    /\ ENeg(P) \in G /\ EAdd(P, ENeg(P), C) = EInf
                    /\ EDbl(P, C) = EAdd(P, P, C)
                    /\ \A n \in {0, 1, 2, 3, 5, 8} : EMulNat(BFromNat(n), P, C) = Rep(n, P)
                    /\ EMul(TRUE, <<3>>, P, C) = ENeg(Rep(3, P))
                    /\ EMulNat(BFromNat(N), P, C) = EInf                    \* Lagrange
                    \* order two: exactly the point (0, sqrt b)
                    /\ ((~P.inf /\ EDbl(P, C) = EInf) <=> P = T)
                    \* halving
                    /\ (EHalvable(P, C) <=> \E R \in G : EIsHalfOf(R, P, C))
                    /\ (EHalvable(P, C) => Cardinality({R \in G : EIsHalfOf(R, P, C)}) = 2)
                    /\ \A R \in G : EIsHalfOf(R, P, C) => EIsHalfOf(EAdd(R, T, C), P, C)
                    \* lambda representation round trip
                    /\ ((~P.inf /\ P.x # <<>>) =>
                          EFromLambda(P.x, GAdd(P.x, GMul(P.y, GInv(P.x, C.f), C.f)), C) = P)
    /\ T \in G
    /\ \A P, R \in G : EAdd(P, R, C) \in G /\ EAdd(P, R, C) = EAdd(R, P, C)
                        /\ ESub(P, R, C) = EAdd(P, ENeg(R), C)
    /\ \A P, R, S \in G : EAdd(EAdd(P, R, C), S, C) = EAdd(P, EAdd(R, S, C), C)
    \* Hasse bound; the order is even
    /\ (N - (Q + 1)) * (N - (Q + 1)) <= 4 * Q
    /\ N % 2 = 0
    /\ (GTrace(C.a, C.f) = 0 <=> N % 4 = 0)
    \* Koblitz curves: Frobenius is an endomorphism satisfying its characteristic equation
    /\ (EIsKoblitz(C) =>
          /\ \A P \in G : /\ EFrb(P, C) \in G
                          /\ EAdd(EFrb(EFrb(P, C), C), EAdd(P, P, C), C)
                               = (IF mu = 1 THEN EFrb(P, C) ELSE ENeg(EFrb(P, C)))
          /\ \A P, R \in G : EFrb(EAdd(P, R, C), C) = EAdd(EFrb(P, C), EFrb(R, C), C))
=============================================================================
