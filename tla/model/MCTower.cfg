CONSTANT p = 7
SPECIFICATION Spec
INVARIANT Check
CHECK_DEADLOCK FALSE
