------------------------------ MODULE MCBigNat ------------------------------
(***************************************************************************)
(* Checks the pure TLA+ definitions of BigNat against TLC's native         *)
(* integers for every pair of operands below N.  Run WITHOUT the Java      *)
(* override (bin/check copies the .tla files to a directory that holds no  *)
(* BigNat.class), and a second time WITH it (then it checks the override). *)
(***************************************************************************)
EXTENDS BigNat, Integers, TLC
CONSTANT N
VARIABLES a, b

Init == a = 0 /\ b \in 0..N
Next == a < N /\ a' = a + 1 /\ b' = b

RECURSIVE NatGcd(_, _)
NatGcd(x, y) == IF y = 0 THEN x ELSE NatGcd(y, x % y)
RECURSIVE NatPowMod(_, _, _)
NatPowMod(x, e, m) == IF e = 0 THEN 1 % m ELSE (x * NatPowMod(x, e - 1, m)) % m
NatIsPrime(x) == x >= 2 /\ \A d \in 2..(x - 1) : d * d > x \/ x % d # 0
RECURSIVE NatSqrt(_, _)
NatSqrt(x, r) == IF (r + 1) * (r + 1) > x THEN r ELSE NatSqrt(x, r + 1)

A == BFromNat(a)
Bb == BFromNat(b)

Correct ==
    /\ IsBigNat(A) /\ BToNat(A) = a
    /\ BNorm(A \o <<0, 0>>) = A
    /\ BAdd(A, Bb) = BFromNat(a + b)
    /\ BMul(A, Bb) = BFromNat(a * b)
    /\ (a >= b => BSub(A, Bb) = BFromNat(a - b))
    /\ BCmp(A, Bb) = (IF a < b THEN 0 - 1 ELSE IF a > b THEN 1 ELSE 0)
    /\ BLt(A, Bb) = (a < b) /\ BLe(A, Bb) = (a <= b) /\ BEq(A, Bb) = (a = b)
    /\ BBits(A) = (CHOOSE n \in 0..31 : Pow2(n) > a /\ (n = 0 \/ Pow2(n - 1) <= a))
    /\ \A i \in 0..13 : BBit(A, i) = (a \div Pow2(i)) % 2
    /\ \A s \in {0, 1, 7, 8, 9, 15, 16, 17} :
          /\ BShl(A, s) = BFromNat(a * Pow2(s))
          /\ BShr(A, s) = BFromNat(a \div Pow2(s))
          /\ BLow(A, s) = BFromNat(a % Pow2(s))
    /\ (b > 0 => /\ BDivMod(A, Bb) = <<BFromNat(a \div b), BFromNat(a % b)>>
                 /\ BDiv(A, Bb) = BFromNat(a \div b)
                 /\ BMod(A, Bb) = BFromNat(a % b)
                 /\ BAddMod(A, Bb, Bb) = BFromNat(a % b)
                 /\ BMulMod(A, A, Bb) = BFromNat((a * a) % b)
                 /\ (a < b => BSubMod(<<>>, A, Bb) = BFromNat((b - a) % b))
                 /\ BModExp(A, BFromNat(b % 17), Bb) = BFromNat(NatPowMod(a % b, b % 17, b))
                 /\ LET inv == BModInv(A, Bb) IN
                      IF NatGcd(a, b) = 1 /\ b > 1
                      THEN BLt(inv, Bb) /\ BMulMod(inv, A, Bb) = <<1>>
                      ELSE inv = <<>>)
    /\ BGcd(A, Bb) = BFromNat(NatGcd(a, b))
    /\ BSqrt(A) = BFromNat(NatSqrt(a, 0))
    /\ BIsPrime(A) = NatIsPrime(a)
    /\ BFromBE(BToBE(A, 3)) = A /\ Len(BToBE(A, 3)) = 3
    /\ BLenBytes(A) = Len(A)
=============================================================================
