SPECIFICATION Spec
CONSTANTS
    R = 5
    Second = {0, 1, 2, 3, 4}
    Delta = 0
    Break = "none"
INVARIANTS Opened Reconstruct WrongTriple
CHECK_DEADLOCK FALSE
