------------------------------- MODULE FbSpec -------------------------------
(***************************************************************************)
(* Binary fields (fb, fb2) and binary curves (eb) of RELIC at the level of *)
(* one public call (C16): what each operation must return, as arithmetic   *)
(* in GF(2)[x]/(f) (lib/GF2m) and in the group of the curve                *)
(* y^2 + xy = x^3 + a x^2 + b (lib/BinCurve) on the ABSTRACT values of its *)
(* operands.  A field element is its digit vector read as little-endian    *)
(* bytes (there is no internal form); every output element must be         *)
(* reduced: exactly fd digits and degree < m.                              *)
(*                                                                         *)
(* An event e (harness/drv_fb.c) carries the field header m, f (the field  *)
(* polynomial, raw), w (digit bytes), fd (digits), pa/pb/pc (the exponents *)
(* the fast reduction uses), al (alias pattern), the RAW inputs before the *)
(* call and outputs after it, crash (fatal signal), err (thrown error),    *)
(* code (sticky code), unch (non-aliased inputs bit-identical afterwards). *)
(* Curve events add ca, cb (raw coefficients), n, h (order and cofactor,   *)
(* bn projections), kbl (library's Koblitz flag), add (default coordinate  *)
(* system), wd/dep/dgb (window, depth, digit bits) and points {x,y,z,c}:   *)
(* c = 1 affine (z = 1; the library identity is (0,0,0)), c = 2 Lopez-     *)
(* Dahab projective x = X/Z, y = Y/Z^2, c = 3 lambda form (x, x + y/x).    *)
(* Inverses, roots and halves are judged by their defining relation.       *)
(***************************************************************************)
EXTENDS BinCurve, BigInt

F(e) == BNorm(e.f)
V(x) == BNorm(x)
Canon(e, raw) == Len(raw) = e.w * e.fd /\ BBits(raw) <= e.m
FieldOk(e) == Len(e.f) = e.w * e.fd /\ GDeg(F(e)) = e.m
Clean(e) == e.crash = 0 /\ e.err = 0 /\ e.code = 0 /\ e.unch
(* an invalid argument (inversion of zero, wrong buffer length) must be reported *)
MustThrow(e) == e.crash = 0 /\ e.err # 0 /\ e.code = 1 /\ e.unch
(* the call returned normally and the output is the reduced representation of v *)
RetF(e, raw, v) == Clean(e) /\ Canon(e, raw) /\ V(raw) = v
In1(e) == FieldOk(e) /\ Canon(e, e.a)
In2(e) == FieldOk(e) /\ Canon(e, e.a) /\ Canon(e, e.b)
A(e) == V(e.a)
Bv(e) == V(e.b)
IntOf(o) == I(o.s = 1, o.d)

MulOps == {"fb_mul", "fb_mul_basic", "fb_mul_integ", "fb_mul_lodah", "fb_mul_karat"}
SqrOps == {"fb_sqr", "fb_sqr_basic", "fb_sqr_quick", "fb_sqr_integ"}
InvOps == {"fb_inv", "fb_inv_basic", "fb_inv_binar", "fb_inv_exgcd", "fb_inv_almos", "fb_inv_itoht",
           "fb_inv_bruch", "fb_inv_ctaia", "fb_inv_lower"}
SrtOps == {"fb_srt", "fb_srt_basic", "fb_srt_quick"}
SlvOps == {"fb_slv", "fb_slv_basic", "fb_slv_quick"}
TrcOps == {"fb_trc", "fb_trc_basic", "fb_trc_quick"}
ExpOps == {"fb_exp", "fb_exp_basic", "fb_exp_slide", "fb_exp_monty"}
RdcOps == {"fb_rdc", "fb_rdc_basic", "fb_rdc_quick"}
ItrOps == {"fb_itr_basic", "fb_itr_quick"}

InvSpec(e) == IF A(e) = <<>> THEN MustThrow(e)
              ELSE /\ RetF(e, e.c, GInv(A(e), F(e)))
                   /\ GIsInvOf(V(e.c), A(e), F(e))

InvSimSpec(e) ==
    /\ FieldOk(e) /\ Len(e.as) = e.n /\ Len(e.cs) = e.n
    /\ \A i \in 1..e.n : Canon(e, e.as[i])
    /\ IF \E i \in 1..e.n : V(e.as[i]) = <<>> THEN MustThrow(e)
       ELSE /\ Clean(e)
            /\ \A i \in 1..e.n : Canon(e, e.cs[i]) /\ GIsInvOf(V(e.cs[i]), V(e.as[i]), F(e))

(* a^x for a signed exponent: a^0 = 1, a^-k = (a^k)^-1, 0^-k is an inversion of zero *)
ExpSpec(e) ==
    LET x == IntOf(e.e) IN
    IF x.mag = <<>> THEN RetF(e, e.c, <<1>>)
    ELSE IF ~x.neg THEN RetF(e, e.c, GExp(A(e), x.mag, F(e)))
    ELSE IF A(e) = <<>> THEN MustThrow(e)
    ELSE RetF(e, e.c, GInv(GExp(A(e), x.mag, F(e)), F(e)))

(* iterated squaring a^(2^k); a negative count is the iterated square root *)
ItrSpec(e) ==
    IF e.k >= 0 THEN RetF(e, e.c, GItr(A(e), e.k, F(e)))
    ELSE Clean(e) /\ Canon(e, e.c) /\ GItr(V(e.c), 0 - e.k, F(e)) = A(e)

(* the half-trace: c^2 + c = a + Tr(a), i.e. c solves z^2 + z = a whenever a solution exists *)
SlvSpec(e) ==
    /\ Clean(e) /\ Canon(e, e.c)
    /\ GAdd(GSqr(V(e.c), F(e)), V(e.c)) = GAdd(A(e), GTraceElt(A(e), F(e)))
    /\ (GSolvable(A(e), F(e)) => GSolves(V(e.c), A(e), F(e)))

RdcSpec(e) ==
    /\ FieldOk(e) /\ Len(e.t) = 2 * e.w * e.fd
    /\ RetF(e, e.c, GModPoly(V(e.t), F(e)))

ReadBinSpec(e) ==
    IF e.len # e.fb THEN MustThrow(e)
    ELSE LET v == BFromBE(e.bin) IN
         IF BBits(v) <= e.m THEN RetF(e, e.c, v)
         ELSE e.crash = 0                    \* a non-reduced encoding: nothing is claimed
WriteBinSpec(e) ==
    IF e.len # e.fb THEN MustThrow(e)
    ELSE Clean(e) /\ e.bin = BToBE(A(e), e.len)

(* ------------------------------------------------------------------------ *)
(* quadratic extension GF(2^m)[s]/(s^2 + s + 1)                             *)
(* ------------------------------------------------------------------------ *)
Canon2(e, X) == Len(X) = 2 /\ Canon(e, X[1]) /\ Canon(e, X[2])
V2(X) == <<V(X[1]), V(X[2])>>
RetF2(e, X, v) == Clean(e) /\ Canon2(e, X) /\ V2(X) = v
Fb2Spec(e) ==
    LET f == F(e)
        a == V2(e.A)
    IN
    /\ FieldOk(e) /\ Canon2(e, e.A)
    /\ CASE e.op = "fb2_mul" -> Canon2(e, e.B) /\ RetF2(e, e.C, G2Mul(a, V2(e.B), f))
         [] e.op = "fb2_sqr" -> RetF2(e, e.C, G2Sqr(a, f))
         [] e.op = "fb2_mul_nor" -> RetF2(e, e.C, G2Mul(a, <<<<>>, <<1>>>>, f))
         [] e.op = "fb2_inv" -> IF a = G2Zero THEN MustThrow(e)
                                ELSE Clean(e) /\ Canon2(e, e.C) /\ G2IsInvOf(V2(e.C), a, f)
         [] e.op = "fb2_slv" -> /\ Clean(e) /\ Canon2(e, e.C)
                                /\ (G2Trace(a, f) = 0 => G2Solves(V2(e.C), a, f))

(* ------------------------------------------------------------------------ *)
(* field selection: the polynomial and everything derived from it           *)
(* ------------------------------------------------------------------------ *)
X2(n) == BShl(<<1>>, n)
PolyOf(e) ==
    IF e.pb = 0 /\ e.pc = 0 THEN GAdd(GAdd(X2(e.m), X2(e.pa)), <<1>>)
    ELSE GAdd(GAdd(GAdd(X2(e.m), X2(e.pa)), GAdd(X2(e.pb), X2(e.pc))), <<1>>)
SelectSpec(e) ==
    /\ e.ok = 1 /\ e.crash = 0 /\ e.err = 0 /\ e.code = 0
    /\ FieldOk(e)
    /\ e.pa > 0 /\ e.pa < e.m /\ ((e.pb = 0 /\ e.pc = 0) \/ (e.pa > e.pb /\ e.pb > e.pc /\ e.pc > 0))
    /\ F(e) = PolyOf(e)
    /\ GIsIrreducible(F(e))
    \* the bits whose trace is one (fb_trc_quick sums exactly these)
    /\ {i \in 0..(e.m - 1) : GTrace(X2(i), F(e)) = 1} = ({e.ta, e.tb, e.tc} \ {0 - 1})
    \* sqrt(x)
    /\ Canon(e, e.srz) /\ GSqr(V(e.srz), F(e)) = <<2>>

HalfElt(l, j) ==
    LET bit(k) == IF (j \div Pow2(k)) % 2 = 1 THEN X2(8 * l + 2 * k + 1) ELSE <<>>
    IN  GAdd(GAdd(bit(0), bit(1)), GAdd(bit(2), bit(3)))

(* ------------------------------------------------------------------------ *)
(* curves                                                                   *)
(* ------------------------------------------------------------------------ *)
Crv(e) == [f |-> F(e), a |-> V(e.ca), b |-> V(e.cb)]
CurveOk(e) == FieldOk(e) /\ Canon(e, e.ca) /\ Canon(e, e.cb) /\ V(e.cb) # <<>>
ValidTag(P) == P.c \in {1, 2, 3}
PCanon(e, P) == Canon(e, P.x) /\ Canon(e, P.y) /\ Canon(e, P.z)
ZUnit(P) == V(P.z) \in {<<>>, <<1>>}
EAbs(e, P) ==
    IF V(P.z) = <<>> THEN EInf
    ELSE IF P.c = 1 THEN EPt(V(P.x), V(P.y))
    ELSE IF P.c = 3 THEN EFromLambda(V(P.x), V(P.y), Crv(e))
    ELSE LET zi == GInv(V(P.z), F(e)) IN
         EPt(GMul(V(P.x), zi, F(e)), GMul(V(P.y), GSqr(zi, F(e)), F(e)))
(* operand representations a routine is specified for: affine and the system sys of the routine *)
RepOk(e, P, sys) == ValidTag(P) /\ PCanon(e, P) /\ P.c \in {1, sys} /\ (P.c = 1 => ZUnit(P))
AnyRep(e, P) == ValidTag(P) /\ PCanon(e, P) /\ (P.c \in {1, 3} => ZUnit(P))
OnC(e, P) == EOnCurve(EAbs(e, P), Crv(e))
SysOf(e) ==
    CASE e.op \in {"eb_add_basic", "eb_sub_basic", "eb_dbl_basic", "eb_neg_basic"} -> 1
      [] OTHER -> e.add
RetPoint(e, X) == Clean(e) /\ AnyRep(e, e.R) /\ EEq(EAbs(e, e.R), X)
RetNormal(e, X) == RetPoint(e, X) /\ e.R.c = 1
KNeg(k) == k.s = 1 /\ BNorm(k.d) # <<>>
KP(e, k, P) == EMul(KNeg(k), BNorm(k.d), EAbs(e, P), Crv(e))

NegOps == {"eb_neg", "eb_neg_basic", "eb_neg_projc"}
DblOps == {"eb_dbl", "eb_dbl_basic", "eb_dbl_projc"}
AddOps == {"eb_add", "eb_add_basic", "eb_add_projc"}
SubOps == {"eb_sub", "eb_sub_basic", "eb_sub_projc"}
EMulOps == {"eb_mul", "eb_mul_basic", "eb_mul_lodah", "eb_mul_lwnaf", "eb_mul_rwnaf", "eb_mul_halve", "eb_mul_gen",
            "eb_mul_fix", "eb_mul_fix_basic", "eb_mul_fix_combs", "eb_mul_fix_combd", "eb_mul_fix_lwnaf"}
ESimOps == {"eb_mul_sim", "eb_mul_sim_basic", "eb_mul_sim_trick", "eb_mul_sim_inter", "eb_mul_sim_joint",
            "eb_mul_sim_gen"}

(* halving: the result (lambda form) is a point of the curve whose double is P; on curves with   *)
(* Tr(a) = 1 (cofactor 2) it is the half that can be halved again, i.e. the one in the odd-order *)
(* subgroup - halving is the inverse of the doubling map there                                    *)
HlvSpec(e) ==
    LET c == Crv(e)
        P == EAbs(e, e.P)
        R == EAbs(e, e.R)
    IN
    /\ ValidTag(e.P) /\ PCanon(e, e.P) /\ e.P.c \in {1, 3} /\ ZUnit(e.P)
    /\ OnC(e, e.P) /\ EHalvable(P, c)
    /\ Clean(e) /\ AnyRep(e, e.R)
    /\ EOnCurve(R, c) /\ EIsHalfOf(R, P, c)
    /\ ((GTrace(c.a, c.f) = 1 /\ ~P.inf) => EHalvable(R, c))

(* parameter consistency of a selected curve (the eb part of C18) *)
Abs2(x, y) == IF BLe(y, x) THEN BSub(x, y) ELSE BSub(y, x)
EbSelectSpec(e) ==
    LET c == Crv(e)
        G == EAbs(e, e.P)
        n == BNorm(e.n.d)
        h == BNorm(e.h.d)
        q == X2(e.m)
        d == Abs2(BMul(h, n), BAdd(q, <<1>>))
    IN
    /\ e.ok = 1 /\ e.crash = 0 /\ e.err = 0 /\ e.code = 0
    /\ CurveOk(e) /\ GIsIrreducible(c.f)
    /\ e.P.c = 1 /\ PCanon(e, e.P) /\ V(e.P.z) = <<1>> /\ EOnCurve(G, c)
    /\ e.n.s = 0 /\ e.h.s = 0 /\ BIsPrime(n)
    /\ EMulNat(n, G, c) = EInf
    /\ BLe(BMul(d, d), BShl(q, 2))                            \* Hasse: |h*n - (q + 1)| <= 2 sqrt(q)
    /\ BLt(BShl(q, 4), BMul(n, n))                            \* n > 4 sqrt(q): h*n is the only multiple of n in the interval
    /\ BMod(h, <<4>>) = (IF GTrace(c.a, c.f) = 1 THEN <<2>> ELSE <<>>)
    /\ ((e.kbl = 1) <=> EIsKoblitz(c))
    /\ 2 * e.level <= BBits(n)

FbAccept(e) ==
    LET f == F(e) IN
    CASE e.op = "fb_add" -> In2(e) /\ RetF(e, e.c, GAdd(A(e), Bv(e)))
      [] e.op \in MulOps -> In2(e) /\ RetF(e, e.c, GMul(A(e), Bv(e), f))
      [] e.op \in SqrOps -> In1(e) /\ RetF(e, e.c, GSqr(A(e), f))
      [] e.op \in InvOps -> In1(e) /\ InvSpec(e)
      [] e.op = "fb_inv_sim" -> InvSimSpec(e)
      [] e.op \in SrtOps -> In1(e) /\ RetF(e, e.c, GSqrt(A(e), f)) /\ GSqr(V(e.c), f) = A(e)
      [] e.op \in SlvOps -> In1(e) /\ SlvSpec(e)
      [] e.op \in TrcOps -> In1(e) /\ Clean(e) /\ e.ret = GTrace(A(e), f)
      [] e.op = "fb_copy" -> In1(e) /\ Clean(e) /\ e.c = e.a
      [] e.op = "fb_add_dig" -> In1(e) /\ BBits(e.dg) <= e.m /\ RetF(e, e.c, GAdd(A(e), V(e.dg)))
      [] e.op = "fb_mul_dig" -> In1(e) /\ RetF(e, e.c, GMul(A(e), V(e.dg), f))
      \* equality of elements is equality of polynomials
      [] e.op = "fb_cmp" -> In2(e) /\ Clean(e) /\ ((e.ret = e.EQ) <=> (A(e) = Bv(e)))
      [] e.op = "fb_cmp_dig" -> In1(e) /\ Clean(e) /\ ((e.ret = e.EQ) <=> (A(e) = V(e.dg)))
      [] e.op \in ExpOps -> In1(e) /\ ExpSpec(e)
      [] e.op \in ItrOps -> In1(e) /\ ItrSpec(e)
      [] e.op \in RdcOps -> RdcSpec(e)
      [] e.op = "fb_read_bin" -> FieldOk(e) /\ ReadBinSpec(e)
      [] e.op = "fb_write_bin" -> In1(e) /\ WriteBinSpec(e)
      [] e.op = "fb_rand" -> e.crash = 0 /\ e.err = 0 /\ e.code = 0 /\ Canon(e, e.c)
      [] e.op \in {"fb2_mul", "fb2_sqr", "fb2_inv", "fb2_slv", "fb2_mul_nor"} -> Fb2Spec(e)
      [] e.op = "fb_select" -> SelectSpec(e)
      [] e.op = "tab_half" -> FieldOk(e) /\ Canon(e, e.c) /\ V(e.c) = GHalfTrace(HalfElt(e.l, e.j), f)
      [] e.op = "tab_srz" -> FieldOk(e) /\ Canon(e, e.c) /\ V(e.c) = GMul(V(e.srz), BFromNat(e.j), f)
      \* ---------------------------------------------------------------- curves
      [] e.op \in NegOps ->
            CurveOk(e) /\ RepOk(e, e.P, SysOf(e)) /\ OnC(e, e.P) /\ RetPoint(e, ENeg(EAbs(e, e.P)))
      [] e.op \in DblOps ->
            CurveOk(e) /\ RepOk(e, e.P, SysOf(e)) /\ OnC(e, e.P) /\ RetPoint(e, EDbl(EAbs(e, e.P), Crv(e)))
      [] e.op \in AddOps ->
            /\ CurveOk(e) /\ RepOk(e, e.P, SysOf(e)) /\ RepOk(e, e.Q, SysOf(e)) /\ OnC(e, e.P) /\ OnC(e, e.Q)
            /\ RetPoint(e, EAdd(EAbs(e, e.P), EAbs(e, e.Q), Crv(e)))
      [] e.op \in SubOps ->
            /\ CurveOk(e) /\ RepOk(e, e.P, SysOf(e)) /\ RepOk(e, e.Q, SysOf(e)) /\ OnC(e, e.P) /\ OnC(e, e.Q)
            /\ RetPoint(e, ESub(EAbs(e, e.P), EAbs(e, e.Q), Crv(e)))
      [] e.op = "eb_norm" ->
            CurveOk(e) /\ AnyRep(e, e.P) /\ OnC(e, e.P) /\ RetNormal(e, EAbs(e, e.P))
      [] e.op = "eb_hlv" -> CurveOk(e) /\ HlvSpec(e)
      [] e.op = "eb_frb" ->
            /\ CurveOk(e) /\ EIsKoblitz(Crv(e)) /\ RepOk(e, e.P, SysOf(e)) /\ OnC(e, e.P)
            /\ RetPoint(e, EFrb(EAbs(e, e.P), Crv(e)))
      [] e.op = "eb_cmp" ->
            /\ CurveOk(e) /\ AnyRep(e, e.P) /\ AnyRep(e, e.Q) /\ Clean(e)
            /\ ((e.ret = e.EQ) <=> EEq(EAbs(e, e.P), EAbs(e, e.Q)))
      [] e.op = "eb_on_curve" ->
            CurveOk(e) /\ AnyRep(e, e.P) /\ Clean(e) /\ e.ret \in {0, 1} /\ ((e.ret = 1) <=> OnC(e, e.P))
      [] e.op = "eb_is_infty" ->
            CurveOk(e) /\ AnyRep(e, e.P) /\ Clean(e) /\ e.ret \in {0, 1} /\ ((e.ret = 1) <=> EAbs(e, e.P).inf)
      [] e.op \in EMulOps ->
            CurveOk(e) /\ RepOk(e, e.P, SysOf(e)) /\ OnC(e, e.P) /\ RetNormal(e, KP(e, e.k, e.P))
      [] e.op = "eb_mul_dig" ->
            /\ CurveOk(e) /\ RepOk(e, e.P, SysOf(e)) /\ OnC(e, e.P)
            /\ RetNormal(e, EMul(FALSE, BNorm(e.dg), EAbs(e, e.P), Crv(e)))
      [] e.op \in ESimOps ->
            /\ CurveOk(e) /\ RepOk(e, e.P, SysOf(e)) /\ RepOk(e, e.Q, SysOf(e)) /\ OnC(e, e.P) /\ OnC(e, e.Q)
            /\ RetNormal(e, EAdd(KP(e, e.k, e.P), KP(e, e.m2, e.Q), Crv(e)))
      [] e.op = "eb_select" -> EbSelectSpec(e)
      [] e.op = "restart" -> TRUE              \* resume marker after an event with crash # 0
      [] OTHER -> FALSE

(***************************************************************************)
(* Known findings (DESIGN.md 2.8): each key is enabled only for its op +   *)
(* input class + the exact wrong outcome described, and only when listed   *)
(* in known_findings.json.                                                 *)
(*                                                                         *)
(* C16-inv-one-unreduced: fb_inv_exgcd (the default fb_inv) and            *)
(* fb_inv_lower (fb_invn_low) start their Euclidean loop without testing   *)
(* u = 1: for a = 1 they reduce f against 1 and return g1 = f + 1, which   *)
(* is congruent to 1 but has degree m (not a reduced element; fb_cmp with  *)
(* 1 says NE).  Reached also through fb_exp* with a negative exponent      *)
(* whenever a^|x| = 1.                                                     *)
(* C16-exp-slide-exponent-capacity: fb_exp_slide (the default fb_exp) has  *)
(* a recoding buffer of m + 1 entries: longer exponents are refused with   *)
(* ERR_NO_BUFFER instead of being computed.                                *)
(* C16-rdc-basic-low-zero: fb_rdc_basic compares an int bit index with the *)
(* unsigned RLC_FB_BITS; when the low fd digits are all zero after the     *)
(* high half has been folded (the input is 0, or a multiple of f reaching  *)
(* into the high half) the index -1 passes the test and memory far outside *)
(* the operand is read and written (SIGSEGV).                              *)
(* C16-srt-quick-half-digits (latent; met in the 8-bit tiny world only):   *)
(* fb_srtn_low takes the table path fb_sqrt_low when an exponent of f is   *)
(* even; that path keeps the even-indexed coefficients of a in             *)
(* HALF = ceil((m div 2)/W) digits although there are ceil(m/2) of them -  *)
(* one bit short when m div 2 is a multiple of the digit size (m = 17 with *)
(* 8-bit digits; it would be 129, 257 with 64-bit digits): the square root *)
(* of an element with coefficient x^(m-1) set is wrong.                    *)
(* C16-cmp-dig-xor: fb_cmp_dig xors ALL digits of a into the digit b and   *)
(* tests the result for zero: any a whose digits xor to b compares RLC_EQ. *)
(* C16-fb2-slv-trace-one: fb2_slv(c, a) for Tr(a) = Tr_m(a1) = 0 (solvable)*)
(* but Tr_m(a0) = 1: the second solve is done on an element of trace one   *)
(* and the result solves z^2 + z = a + 1 instead of z^2 + z = a.           *)
(*                                                                         *)
(* C16-dblbasic-order-two: affine doubling of the point of order two       *)
(* (0, sqrt b) inverts x = 0: fb_inv throws, nothing is returned (expected *)
(* the identity); reached through eb_dbl_basic, eb_add_basic(T, T),        *)
(* eb_sub_basic(T, T').                                                    *)
(* C16-hlv-identity: eb_hlv has no case for the identity: it returns the   *)
(* finite pair (0, lambda), which is not a point of the curve.             *)
(* C16-cmp-zero-infinity: eb_cmp special-cases the identity only when BOTH *)
(* operands are the identity; the identity as eb_add_projc returns it for  *)
(* P + (-P) (all-zero triple tagged PROJC) compares RLC_EQ to every finite *)
(* projective point (both cross products are 0).                           *)
(* C16-mul-long-scalar: no eb multiplication reduces the scalar modulo the *)
(* group order.  For a scalar with more bits than n: the (t)NAF recodings  *)
(* (lwnaf, rwnaf, fix_lwnaf, all sim) refuse it with ERR_NO_BUFFER once it  *)
(* exceeds their m + 1 (m + 8) entries; eb_mul_fix_basic reads table       *)
(* entries that were never built, the combs ignore the bits above their    *)
(* depth * ceil(bits(n)/depth) columns, the Lopez-Dahab ladder starts from *)
(* bit bits(n) of k + n or k + 2n: all three silently return a point that  *)
(* is not [k]P.                                                            *)
(* C16-mul-projective-operand: eb_mul_lodah reads only x and y of its      *)
(* operand, the right-to-left tau-NAF (eb_mul_rwnaf on Koblitz curves)     *)
(* applies Frobenius to x and y but not z, eb_mul_halve takes every        *)
(* non-affine operand for lambda coordinates: with a Lopez-Dahab           *)
(* projective operand (z # 1) - which the other routines accept - the      *)
(* result is not [k]P.                                                     *)
(* C16-lodah-identity: eb_mul_lodah has no case for P = identity and       *)
(* returns a finite point.                                                 *)
(* C16-sim-table-infinity: eb_mul_sim_joint / eb_mul_sim_trick normalise   *)
(* their tables ({P+Q, P-Q}; iP + jQ for 0 <= i, j < 2^(w/2)) with         *)
(* eb_norm_sim, which turns the identity (z = 0, tagged projective) into   *)
(* the finite pair (0,0): when a table entry is the identity (joint: Q = P *)
(* or Q = -P) the result is not [k]P + [m]Q.                               *)
(* C16-simtrick-short-scalar: eb_mul_sim_trick recodes with                *)
(* bn_rec_win(w = RLC_WIDTH/2), whose mixed int/size_t arithmetic wraps    *)
(* for scalars shorter than w bits: the window loop runs past the buffer   *)
(* (SIGSEGV).                                                              *)
(***************************************************************************)
IsOrderTwo(X) == ~X.inf /\ X.x = <<>>
LongScalarOps == (EMulOps \cup ESimOps) \ {"eb_mul_basic", "eb_mul_halve"}
LongScalar(e) == \/ BBits(BNorm(e.k.d)) > BBits(BNorm(e.n.d))
                 \/ (e.op \in ESimOps /\ BBits(BNorm(e.m2.d)) > BBits(BNorm(e.n.d)))
SimTableInf(e) ==
    LET c == Crv(e)
        P == IF KNeg(e.k) THEN ENeg(EAbs(e, e.P)) ELSE EAbs(e, e.P)      \* the tables are built from sign(k) P, sign(m) Q
        Q == IF KNeg(e.m2) THEN ENeg(EAbs(e, e.Q)) ELSE EAbs(e, e.Q)
        M == Pow2(e.wd \div 2) - 1
    IN  IF e.op = "eb_mul_sim_joint" THEN EEq(P, Q) \/ EEq(P, ENeg(Q))
        ELSE \E i \in 0..M, j \in 0..M :
                /\ i + j >= 1
                /\ EAdd(EMulNat(BFromNat(i), P, c), EMulNat(BFromNat(j), Q, c), c).inf
HasEvenExponent(e) == e.pa % 2 = 0 \/ (e.pb # 0 /\ (e.pb % 2 = 0 \/ e.pc % 2 = 0))
RECURSIVE XorDigits(_, _, _)
XorDigits(raw, w, i) == IF i * w >= Len(raw) THEN <<>>
                        ELSE GAdd(BNorm(SubSeq(raw, i * w + 1, (i + 1) * w)), XorDigits(raw, w, i + 1))
RanClean(e) == e.crash = 0 /\ e.err = 0 /\ e.code = 0 /\ e.unch
InvOneOutcome(e) == RanClean(e) /\ Len(e.c) = e.w * e.fd /\ V(e.c) = GAdd(F(e), <<1>>)

FbKnownKey(e) ==
    CASE e.op \in {"fb_inv", "fb_inv_exgcd", "fb_inv_lower"} /\ In1(e) /\ A(e) = <<1>> /\ InvOneOutcome(e)
            -> "C16-inv-one-unreduced"
      [] e.op \in ExpOps /\ In1(e) /\ IntOf(e.e).neg /\ A(e) # <<>> /\ InvOneOutcome(e)
                /\ GExp(A(e), IntOf(e.e).mag, F(e)) = <<1>>
            -> "C16-inv-one-unreduced"
      [] e.op \in {"fb_exp", "fb_exp_slide"} /\ BBits(BNorm(e.e.d)) > e.m + 1
                /\ e.crash = 0 /\ e.err # 0 /\ e.code = 1 /\ e.unch
            -> "C16-exp-slide-exponent-capacity"
      [] e.op \in {"fb_srt", "fb_srt_quick"} /\ In1(e) /\ RanClean(e) /\ Len(e.c) = e.w * e.fd
                /\ (e.m \div 2) % (8 * e.w) = 0 /\ HasEvenExponent(e) /\ BBit(A(e), e.m - 1) = 1
                /\ V(e.c) # GSqrt(A(e), F(e))
            -> "C16-srt-quick-half-digits"
      [] e.op \in ItrOps /\ In1(e) /\ e.k < 0 /\ RanClean(e) /\ Len(e.c) = e.w * e.fd
                /\ (e.m \div 2) % (8 * e.w) = 0 /\ HasEvenExponent(e)
            -> "C16-srt-quick-half-digits"
      [] e.op = "fb_rdc_basic" /\ e.crash # 0 /\ FieldOk(e) /\ Len(e.t) = 2 * e.w * e.fd
                /\ (V(e.t) = <<>> \/ BBits(V(e.t)) > 8 * e.w * e.fd)
                /\ GModPoly(V(e.t), F(e)) = <<>>
            -> "C16-rdc-basic-low-zero"
      [] e.op = "fb_cmp_dig" /\ In1(e) /\ RanClean(e) /\ e.ret = e.EQ /\ A(e) # V(e.dg)
                /\ XorDigits(e.a, e.w, 0) = V(e.dg)
            -> "C16-cmp-dig-xor"
      [] e.op = "fb2_slv" /\ FieldOk(e) /\ Canon2(e, e.A) /\ RanClean(e) /\ Canon2(e, e.C)
                /\ GTrace(V(e.A[2]), F(e)) = 0 /\ GTrace(V(e.A[1]), F(e)) = 1
                /\ G2Add(G2Sqr(V2(e.C), F(e)), V2(e.C)) = <<GAdd(V(e.A[1]), <<1>>), V(e.A[2])>>
            -> "C16-fb2-slv-trace-one"
      \* ------------------------------------------------------------ curves
      [] e.op \in {"eb_dbl_basic", "eb_add_basic", "eb_sub_basic"} /\ CurveOk(e)
                /\ RepOk(e, e.P, 1) /\ OnC(e, e.P) /\ IsOrderTwo(EAbs(e, e.P))
                /\ (e.op = "eb_dbl_basic" \/ (RepOk(e, e.Q, 1) /\ EEq(EAbs(e, e.Q), EAbs(e, e.P))))
                /\ e.crash = 0 /\ e.err # 0 /\ e.code = 1
            -> "C16-dblbasic-order-two"
      [] e.op = "eb_hlv" /\ CurveOk(e) /\ ValidTag(e.P) /\ PCanon(e, e.P) /\ EAbs(e, e.P).inf
                /\ RanClean(e) /\ AnyRep(e, e.R) /\ ~EOnCurve(EAbs(e, e.R), Crv(e))
            -> "C16-hlv-identity"
      [] e.op = "eb_cmp" /\ CurveOk(e) /\ AnyRep(e, e.P) /\ AnyRep(e, e.Q) /\ RanClean(e)
                /\ EAbs(e, e.P).inf # EAbs(e, e.Q).inf
                /\ e.P.c = 2 /\ e.Q.c = 2
                /\ LET Z == IF EAbs(e, e.P).inf THEN e.P ELSE e.Q IN V(Z.x) = <<>> /\ V(Z.y) = <<>>
                /\ e.ret = e.EQ
            -> "C16-cmp-zero-infinity"
      [] e.op \in LongScalarOps /\ CurveOk(e) /\ LongScalar(e)
                /\ RepOk(e, e.P, SysOf(e)) /\ OnC(e, e.P)
                /\ (IF e.crash # 0 THEN e.op = "eb_mul_sim_joint"        \* bn_rec_jsf overruns its buffer
                    ELSE IF e.err # 0 THEN e.code = 1 ELSE RanClean(e) /\ AnyRep(e, e.R))
            -> "C16-mul-long-scalar"
      [] e.op \in {"eb_mul_lodah", "eb_mul_rwnaf", "eb_mul_halve"} /\ CurveOk(e)
                /\ (e.op = "eb_mul_rwnaf" => e.kbl = 1)
                /\ RepOk(e, e.P, 2) /\ e.P.c = 2 /\ V(e.P.z) \notin {<<>>, <<1>>} /\ OnC(e, e.P)
                /\ BNorm(e.k.d) # <<>>
                /\ RanClean(e) /\ AnyRep(e, e.R) /\ ~EEq(EAbs(e, e.R), KP(e, e.k, e.P))
            -> "C16-mul-projective-operand"
      [] e.op = "eb_mul_lodah" /\ CurveOk(e) /\ RepOk(e, e.P, 2) /\ EAbs(e, e.P).inf /\ BNorm(e.k.d) # <<>>
                /\ RanClean(e) /\ AnyRep(e, e.R) /\ ~EAbs(e, e.R).inf
            -> "C16-lodah-identity"
      [] e.op = "eb_mul_sim_trick" /\ CurveOk(e) /\ RepOk(e, e.P, 2) /\ RepOk(e, e.Q, 2) /\ OnC(e, e.P) /\ OnC(e, e.Q)
                /\ ~EAbs(e, e.P).inf /\ ~EAbs(e, e.Q).inf /\ BNorm(e.k.d) # <<>> /\ BNorm(e.m2.d) # <<>>
                /\ (BBits(BNorm(e.k.d)) < e.wd \div 2 \/ BBits(BNorm(e.m2.d)) < e.wd \div 2)
                /\ (e.crash # 0 \/ (e.err # 0 /\ e.code = 1))
            -> "C16-simtrick-short-scalar"
      [] e.op \in {"eb_mul_sim_joint", "eb_mul_sim_trick"} /\ CurveOk(e)
                /\ RepOk(e, e.P, 2) /\ RepOk(e, e.Q, 2) /\ OnC(e, e.P) /\ OnC(e, e.Q)
                /\ ~EAbs(e, e.P).inf /\ ~EAbs(e, e.Q).inf /\ BNorm(e.k.d) # <<>> /\ BNorm(e.m2.d) # <<>>
                /\ SimTableInf(e)
                /\ e.crash = 0 /\ (e.err # 0 \/ (RanClean(e) /\ AnyRep(e, e.R)))
            -> "C16-sim-table-infinity"
      [] OTHER -> ""
=============================================================================
