------------------------------- MODULE PpxSpec -------------------------------
(***************************************************************************)
(* C04 over the field-size sweep: the pairings of the k = 8, 16, 18, 24 and *)
(* 48 families (pc_map / pc_map_sim and the Tate / Weil / optimal-ate forms  *)
(* of pp_map_*_k<N>), judged with the ghost-logarithm relation of PpSpec:    *)
(* the driver builds P_i = [a_i]G1, Q_i = [b_i]G2; the spec VERIFIES that     *)
(* the logged points are those multiples (lib/Curve over F_p, lib/CurveX over *)
(* the field of the twist: F_p2, F_p3, F_p4 or F_p8) and that both generators *)
(* lie on the curves the library reports, then demands, with g0 the value on  *)
(* the generators (first event of a segment)                                  *)
(*      g = g0 ^ (sum a_i b_i mod r)     g0 # 1     g0 ^ r = 1               *)
(* Powers in GT = F_p^k are generic quotient-ring arithmetic of lib/Tower    *)
(* over the tower the library documents, built from the constants its field  *)
(* operations realise (u^2, xi = fp2_mul_nor(1), u^3, fp3_mul_nor(1)):       *)
(*   F_p4 = F_p2[v]/(v^2 - xi)   F_p8 = F_p4[w]/(w^2 - v)                     *)
(*   F_p16 = F_p8[z]/(z^2 - w)   F_p24 = F_p8[z]/(z^3 - w)  F_p48 = F_p24[t]/(t^2 - z) *)
(*   F_p9 = F_p3[v]/(v^3 - x3)   F_p18 = F_p9[w]/(w^2 - v)                    *)
(* G2 and GT elements are logged as flat lists of base-field VALUES in       *)
(* storage order (= Tower!TFlat order).                                      *)
(***************************************************************************)
EXTENDS BigInt, Curve, CurveX

Pm(e) == BNorm(e.p)
Ord(e) == BNorm(e.r.d)
BnI(o) == I(o.s = 1, o.d)
RECURSIVE NormAll(_, _)
NormAll(s, i) == IF i > Len(s) THEN <<>> ELSE <<BNorm(s[i])>> \o NormAll(s, i + 1)

(* tower descriptors over values *)
Lv(d, nr) == [deg |-> d, nr |-> nr]
ExtNr(T, d, nr) == [p |-> T.p, lv |-> T.lv \o <<Lv(d, nr)>>]
GenOf(T) == LET k == Top(T) IN Mk(Deg(T, k), LAMBDA i : IF i = 2 THEN TOne(T, k - 1) ELSE TZero(T, k - 1))
ExtGen(T, d) == ExtNr(T, d, GenOf(T))
RECURSIVE TowerN(_, _)
TowerN(e, n) ==
    CASE n = 2  -> [p |-> Pm(e), lv |-> <<Lv(2, BNorm(e.u2[1]))>>]
      [] n = 3  -> [p |-> Pm(e), lv |-> <<Lv(3, BNorm(e.u3[1]))>>]
      [] n = 4  -> ExtNr(TowerN(e, 2), 2, <<BNorm(e.xi[1]), BNorm(e.xi[2])>>)
      [] n = 9  -> ExtNr(TowerN(e, 3), 3, <<BNorm(e.x3[1]), BNorm(e.x3[2]), BNorm(e.x3[3])>>)
      [] n = 8  -> ExtGen(TowerN(e, 4), 2)
      [] n = 16 -> ExtGen(TowerN(e, 8), 2)
      [] n = 18 -> ExtGen(TowerN(e, 9), 2)
      [] n = 24 -> ExtGen(TowerN(e, 8), 3)
      [] n = 48 -> ExtGen(TowerN(e, 24), 2)
(* the field of the twist for each embedding degree the sweep covers *)
D2Of(k) == CASE k = 8 -> 2 [] k = 16 -> 4 [] k = 18 -> 3 [] k = 24 -> 4 [] k = 48 -> 8
ShapeOk(e) ==
    /\ e.k \in {8, 16, 18, 24, 48} /\ e.d2 = D2Of(e.k)
    /\ Len(e.g) = e.k /\ Len(e.a2) = e.d2 /\ Len(e.b2) = e.d2
    /\ Len(e.g2.x) = e.d2 /\ Len(e.g2.y) = e.d2
    /\ \A j \in 1..Len(e.pairs) : Len(e.pairs[j].qx) = e.d2 /\ Len(e.pairs[j].qy) = e.d2
    /\ IF e.k = 18 THEN e.have3 = 1 /\ BNorm(e.u3[2]) = <<>> /\ BNorm(e.u3[3]) = <<>>    \* u^3 in the base field
       ELSE BNorm(e.u2[2]) = <<>>                                                        \* u^2 in the base field
    /\ Len(e.pairs) = e.n /\ e.known = 1

El(T, s) == TUnflat(T, Top(T), NormAll(s, 1))

(* balanced square-and-multiply folds (recursion depth O(log bits)) *)
RECURSIVE PowF(_, _, _, _, _, _)
PowF(T, x, n, acc, lo, hi) ==
    IF hi - lo = 1
    THEN LET s == TMul(T, Top(T), acc, acc) IN IF BBit(n, lo) = 1 THEN TMul(T, Top(T), s, x) ELSE s
    ELSE LET mid == (lo + hi) \div 2
             a1  == PowF(T, x, n, acc, mid, hi)
         IN  IF a1 = a1 THEN PowF(T, x, n, a1, lo, mid) ELSE a1
PowT(T, x, n) == IF BBits(n) = 0 THEN TOne(T, Top(T)) ELSE PowF(T, x, n, TOne(T, Top(T)), 0, BBits(n))
RECURSIVE XMulF(_, _, _, _, _, _)
XMulF(n, P, c, acc, lo, hi) ==
    IF hi - lo = 1
    THEN LET d == XDbl(acc, c) IN IF BBit(n, lo) = 1 THEN XAdd(d, P, c) ELSE d
    ELSE LET mid == (lo + hi) \div 2
             a1  == XMulF(n, P, c, acc, mid, hi)
         IN  IF a1 = a1 THEN XMulF(n, P, c, a1, lo, mid) ELSE a1
XMulBal(n, P, c) == IF BBits(n) = 0 THEN XInf(c) ELSE XMulF(n, P, c, XInf(c), 0, BBits(n))

(* the two source groups: y^2 = x^3 + a x + b over F_p and its twist over the field of degree d2 *)
E1(e) == [p |-> Pm(e), a |-> BNorm(e.ca), b |-> BNorm(e.cb)]
E2T(e, T) == [T |-> T, k |-> Top(T), a |-> El(T, e.a2), b |-> El(T, e.b2)]
G1(e) == Pt(BNorm(e.g1.x), BNorm(e.g1.y))
G2T(e, T) == XPt(El(T, e.g2.x), El(T, e.g2.y))
PointP(pr) == IF pr.pinf = 1 THEN PInf ELSE Pt(BNorm(pr.px), BNorm(pr.py))
PointQ(c, pr) == IF pr.qinf = 1 THEN XInf(c) ELSE XPt(El(c.T, pr.qx), El(c.T, pr.qy))
(* scalar reduced into [0, r) *)
Red(e, k) == IModPos(BnI(k), Ord(e))
(* [k]G for a reduced scalar: k and r - k small are done by a few additions *)
MulG1(e, k) ==
    LET r == Ord(e)  c == E1(e) IN
    IF BLt(BSub(r, k), <<16>>) /\ k # <<>> THEN PNeg(PMulNat(BSub(r, k), G1(e), c), c)
    ELSE PMulNat(k, G1(e), c)
MulG2(e, c, g, k) ==
    LET r == Ord(e) IN
    IF BLt(BSub(r, k), <<16>>) /\ k # <<>> THEN XNeg(XMulBal(BSub(r, k), g, c), c)
    ELSE XMulBal(k, g, c)
InputsAreMultiples(e) ==
    LET T2 == TowerN(e, e.d2)
        c2 == E2T(e, T2)
        g2 == G2T(e, T2)
    IN  /\ OnCurve(G1(e), E1(e)) /\ ~G1(e).inf /\ XOnCurve(g2, c2)
        /\ \A j \in 1..Len(e.pairs) :
              /\ PointP(e.pairs[j]) = MulG1(e, Red(e, e.pairs[j].a))
              /\ PointQ(c2, e.pairs[j]) = MulG2(e, c2, g2, Red(e, e.pairs[j].b))

RECURSIVE SumAB(_, _)
SumAB(e, j) == IF j > Len(e.pairs) THEN <<>>
               ELSE BAddMod(BMulMod(Red(e, e.pairs[j].a), Red(e, e.pairs[j].b), Ord(e)), SumAB(e, j + 1), Ord(e))
IsGeneratorPair(e) == Len(e.pairs) = 1 /\ Red(e, e.pairs[1].a) = <<1>> /\ Red(e, e.pairs[1].b) = <<1>>

GtOf(e) == El(TowerN(e, e.k), e.g)
(* first event of a segment: the pairing of the generators *)
Reference(e) ==
    /\ e.op = "pair" /\ e.err = 0 /\ e.code = 0 /\ ShapeOk(e)
    /\ IsGeneratorPair(e) /\ e.zm = 0
    /\ InputsAreMultiples(e)
    /\ LET T == TowerN(e, e.k)  g == El(T, e.g) IN
          /\ g # TOne(T, Top(T))                            \* non-degenerate
          /\ PowT(T, g, Ord(e)) = TOne(T, Top(T))           \* order divides r
(* every other event of the segment, given the reference value g0 *)
Bilinear(e, g0) ==
    /\ e.op = "pair" /\ e.err = 0 /\ e.code = 0 /\ ShapeOk(e)
    /\ InputsAreMultiples(e)
    /\ LET T == TowerN(e, e.k) IN El(T, e.g) = PowT(T, g0, SumAB(e, 1))

(***************************************************************************)
(* Deviations of the unchanged tree that are recorded, not repaired: op +   *)
(* input class + exact wrong outcome (enabled only when listed in           *)
(* known_findings.json, passed in through IOEnv.KNOWN).                     *)
(***************************************************************************)
(* Tate and Weil pairings of the k = 16 and k = 18 families (pp_map_{tatep,weilp}_k16/_k18 and their _sim_ forms):   *)
(* on verified non-identity inputs the call returns normally with a canonical element of F_p^k that is not          *)
(* g0^(sum a_i b_i) (the Miller loop over the G1 point uses line / doubling formulas that do not match the curve);   *)
(* for the Weil forms the value on the generators does not even have order dividing r.  Identity inputs (value 1)   *)
(* and every optimal-ate / pc_map event stay fully judged.                                                          *)
RECURSIVE CanonAll(_, _, _)
CanonAll(s, p, i) == i > Len(s) \/ (BLt(BNorm(s[i]), p) /\ CanonAll(s, p, i + 1))
PpxKnownKey(e, g0) ==
    IF /\ e.op = "pair" /\ e.err = 0 /\ e.code = 0 /\ ShapeOk(e)
       /\ e.k \in {16, 18} /\ e.fn \in {"tatep", "weilp", "sim_tatep", "sim_weilp"}
       /\ InputsAreMultiples(e) /\ SumAB(e, 1) # <<>>
       /\ CanonAll(e.g, Pm(e), 1) /\ GtOf(e) # TZero(TowerN(e, e.k), Top(TowerN(e, e.k)))
    THEN (IF e.k = 16 THEN "C04-k16-tate-weil-not-bilinear" ELSE "C04-k18-tate-weil-not-bilinear")
    ELSE ""
=============================================================================
