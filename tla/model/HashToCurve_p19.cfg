CONSTANT Primes = {5, 17, 19, 23}
SPECIFICATION Spec
INVARIANT Check
CHECK_DEADLOCK FALSE
