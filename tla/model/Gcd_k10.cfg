CONSTANTS W = 4  KBits = 10  Algs = {"lehme", "xlehme"}
SPECIFICATION Spec
INVARIANTS GcdPreserved LehmerOrdered Result Bezout Terminates
CHECK_DEADLOCK FALSE
