CONSTANTS
  PW = 241
  CA = 1
  CB = 21
  EA = 240
  ED = 7
  MaxLen = 3
  FirstBytes <- FewTags
  VMax = 300
  TextLen = 1
  SqrtPrimes = {3, 5, 7, 13, 17, 41, 97, 113, 193, 241, 251, 257}
SPECIFICATION Spec
INVARIANTS BinInv FpInv EpInv EdInv TextInv ValInv PointInv
CHECK_DEADLOCK FALSE
