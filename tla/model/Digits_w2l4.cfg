CONSTANTS W = 2  MaxLen = 4
SPECIFICATION Spec
INVARIANT Correct
CHECK_DEADLOCK FALSE
