-------------------------------- MODULE Err --------------------------------
(***************************************************************************)
(* RELIC's error handling (include/relic_err.h, src/relic_err.c) as a      *)
(* state machine, transcribed from the macro expansion:                    *)
(*                                                                         *)
(*   RLC_TRY    _last = ctx->last; _this.block = 1; ctx->last = &_this;    *)
(*              z=0: _this.error = ADDR;  z=1: if (setjmp == 0) { body;    *)
(*              caught = 0 } else { caught = 1 }  ctx->last = _last; break *)
(*   RLC_CATCH  for (z = 0; z < 2; z++)                                    *)
(*                 if (z == 1 && caught) { handler }                       *)
(*   RLC_FINALLY   else if (z == 0) { finaliser }                          *)
(*   RLC_THROW  code = ERR; last == NULL: install ctx->error frame,        *)
(*              number = E, continue;  last->block == 0: continue;         *)
(*              last->block == 1: *last->error = E (unless NULL/CAUGHT),   *)
(*              longjmp(last->addr)                                        *)
(*                                                                         *)
(* Programs are not a constant: wherever a statement could stand the       *)
(* machine chooses Open / Throw / GetCode / End nondeterministically under *)
(* a token budget and a nesting bound and records the choice in `log`; a   *)
(* behaviour's log IS the program, and harness/err_vm.c consumes the same  *)
(* token stream with the real macros (replay, spec -> code).               *)
(*                                                                         *)
(* SnapshotCaught = FALSE is the macro text of the pinned tree: the CATCH  *)
(* test reads the GLOBAL ctx->caught after FINALLY has run.  TRUE is the   *)
(* repaired text (the flag is sampled when the second loop starts).        *)
(***************************************************************************)
EXTENDS Naturals, Sequences, FiniteSets, TLC

CONSTANTS Budget,          \* tokens a program may consist of
          MaxDepth,        \* maximal depth of the activation stack
          SnapshotCaught   \* BOOLEAN, see above

Errs == {"E1", "CAUGHT"}
NONE == "NONE"
ErrFrame == [id |-> 0, block |-> 0]       \* &ctx->error after a throw outside any block

VARIABLES
    stack,     \* activations of try constructs, innermost last:
               \*   [id, kind ("any"|"var"), fin (BOOLEAN), saved (value of ctx->last at entry),
               \*    phase ("body"|"z0"|"fin"|"z1"|"catch"), snap (caught sampled at second loop)]
    last,      \* ctx->last as the chain of frames it reaches: <<>> = NULL, else Seq of [id, block]
    caught,    \* ctx->caught
    code,      \* ctx->code: "OK" | "ERR"
    number,    \* ctx->number
    slots,     \* catch-specific error variables, by try id
    nextId, budget,
    log,       \* history: the tokens chosen so far (the program)
    obs,       \* history: observable events, compared with err_vm's output on replay
    done,      \* program ended
    \* ghosts for the properties
    fins,      \* id -> how often the finaliser of id was entered
    landed,    \* ids in which a jump landed
    handled,   \* ids whose handler body was entered
    thrownSince,  \* a throw happened since the last err_get_code
    bad        \* "" or the name of the first property violated by a transition

vars == <<stack, last, caught, code, number, slots, nextId, budget, log, obs, done,
          fins, landed, handled, thrownSince, bad>>

Top == stack[Len(stack)]
(* what ctx->last points to: -1 = NULL, 0 = the context's own frame, else the try id *)
LastId == IF last = <<>> THEN 0 - 1 ELSE last[Len(last)].id
(* ChainRestored at the exit of a construct: ctx->last is what it was at entry, except that *)
(* a throw in its handler/finaliser outside any block legitimately installs the ctx frame  *)
ExitChainOK(act) == last = act.saved \/ (act.saved = <<>> /\ last = <<ErrFrame>>)
Depth == Len(stack)
InStmtContext == ~done /\ (IF Depth = 0 THEN TRUE ELSE Top.phase \in {"body", "fin", "catch"})

Init ==
    /\ stack = <<>> /\ last = <<>> /\ caught = 0 /\ code = "OK" /\ number = NONE
    /\ slots = <<>> /\ nextId = 1 /\ budget = Budget /\ log = <<>> /\ obs = <<>> /\ done = FALSE
    /\ fins = <<>> /\ landed = {} /\ handled = {} /\ thrownSince = FALSE /\ bad = ""

Mark(cond, name) == IF bad = "" /\ cond THEN name ELSE bad

(* ------------------------------------------------------------------ Open *)
Open(kind, fin) ==
    /\ InStmtContext /\ budget > 0 /\ Depth < MaxDepth
    /\ LET id == nextId IN
       /\ stack' = Append(stack, [id |-> id, kind |-> kind, fin |-> fin, saved |-> last,
                                  phase |-> "body", snap |-> 0])
       /\ last' = Append(last, [id |-> id, block |-> 1])
       /\ slots' = Append(slots, NONE)
       /\ fins' = Append(fins, 0)
       /\ log' = Append(log, <<"open", kind, fin>>)
       /\ obs' = Append(obs, <<"enter", id, LastId>>)
    /\ nextId' = nextId + 1 /\ budget' = budget - 1
    /\ UNCHANGED <<caught, code, number, done, landed, handled, thrownSince, bad>>

(* ----------------------------------------------------------------- Throw *)
(* the innermost protected BODY the throw is dynamically inside of, 0 if none *)
InnermostBody ==
    LET S == {j \in 1..Len(stack) : stack[j].phase = "body"} IN
    IF S = {} THEN 0 ELSE stack[CHOOSE j \in S : \A k \in S : k <= j].id
PosOf(id) == CHOOSE j \in 1..Len(stack) : stack[j].id = id

Throw(e) ==
    /\ InStmtContext /\ budget > 0
    /\ budget' = budget - 1
    /\ log' = Append(log, <<"throw", e>>)
    /\ code' = "ERR" /\ thrownSince' = TRUE
    /\ IF last = <<>>
       THEN \* outside any block: install the context's own frame, remember the number
            /\ last' = <<ErrFrame>> /\ number' = e
            /\ obs' = obs \o << <<"throw", e>>, <<"cont", 0, e>> >>
            /\ bad' = Mark(InnermostBody # 0, "NearestHandler")
            /\ UNCHANGED <<stack, caught, slots, fins, landed, handled>>
       ELSE IF last[Len(last)].block = 0
       THEN \* the context frame is installed: only the sticky code is set
            /\ obs' = obs \o << <<"throw", e>>, <<"cont", 0, number>> >>
            /\ bad' = Mark(InnermostBody # 0, "NearestHandler")
            /\ UNCHANGED <<stack, last, caught, number, slots, fins, landed, handled>>
       ELSE \* jump to the frame ctx->last points to
            LET f == last[Len(last)].id IN
            IF \E j \in 1..Len(stack) : stack[j].id = f /\ stack[j].phase = "body"
            THEN LET p == PosOf(f)
                     cut == SubSeq(stack, p + 1, Len(stack))   \* activations abandoned by longjmp
                 IN
                 /\ slots' = IF stack[p].kind = "var" /\ e # "CAUGHT"
                             THEN [slots EXCEPT ![f] = e] ELSE slots
                 \* Land: caught = 1; ctx->last = _last; second loop starts
                 /\ caught' = 1
                 /\ last' = stack[p].saved
                 /\ stack' = Append(SubSeq(stack, 1, p - 1), [stack[p] EXCEPT !.phase = "z0", !.snap = 1])
                 /\ landed' = landed \cup {f}
                 /\ obs' = Append(obs, <<"throw", e>>)
                 /\ bad' = Mark(f # InnermostBody, "NearestHandler")
                           \* (an abandoned activation was in its finaliser or handler: finaliser entered once)
                 /\ Assert(\A j \in 1..Len(cut) : cut[j].phase \in {"fin", "catch"}
                                                     /\ (cut[j].fin => fins[cut[j].id] = 1),
                           "abandoned activation without its finaliser")
                 /\ UNCHANGED <<number, fins, handled>>
            ELSE \* ctx->last points to a frame whose activation is gone or not in its body
                 /\ bad' = Mark(TRUE, "DanglingFrame")
                 /\ obs' = Append(obs, <<"throw", e>>)
                 /\ UNCHANGED <<stack, last, caught, number, slots, fins, landed, handled>>
    /\ UNCHANGED <<nextId, done>>

(* ------------------------------------------------------------------- End *)
(* closes the statement sequence that is currently being generated *)
EndTok ==
    /\ InStmtContext /\ budget > 0
    /\ budget' = budget - 1
    /\ log' = Append(log, <<"end">>)
    /\ IF Depth = 0
       THEN done' = TRUE /\ obs' = Append(obs, <<"halt", LastId, code>>)
            /\ UNCHANGED <<stack, last, caught, handled, bad>>
       ELSE /\ done' = FALSE
            /\ CASE Top.phase = "body" ->
                      \* BodyDone: caught = 0; ctx->last = _last; second loop starts
                      /\ caught' = 0
                      /\ last' = Top.saved
                      /\ stack' = [stack EXCEPT ![Len(stack)] = [Top EXCEPT !.phase = "z0", !.snap = 0]]
                      /\ UNCHANGED obs
                      /\ bad' = Mark(last # Append(Top.saved, [id |-> Top.id, block |-> 1]), "ChainRestored")
                      /\ UNCHANGED handled
                 [] Top.phase = "fin" ->
                      /\ stack' = [stack EXCEPT ![Len(stack)] = [Top EXCEPT !.phase = "z1"]]
                      /\ UNCHANGED <<obs, last, caught, handled, bad>>
                 [] Top.phase = "catch" ->
                      \* Exit after the handler
                      /\ stack' = SubSeq(stack, 1, Len(stack) - 1)
                      /\ obs' = Append(obs, <<"exit", Top.id, LastId>>)
                      /\ bad' = Mark((Top.fin /\ fins[Top.id] # 1) \/ ~ExitChainOK(Top), "ExitState")
                      /\ UNCHANGED <<last, caught, handled>>
    /\ UNCHANGED <<code, number, slots, nextId, fins, landed, thrownSince>>

(* --------------------------------------------- internal steps of a construct *)
(* z = 0 of the second loop: the finaliser, if the construct has one *)
StepZ0 ==
    /\ ~done /\ Depth > 0 /\ Top.phase = "z0"
    /\ IF Top.fin
       THEN /\ stack' = [stack EXCEPT ![Len(stack)] = [Top EXCEPT !.phase = "fin"]]
            /\ fins' = [fins EXCEPT ![Top.id] = @ + 1]
            /\ obs' = Append(obs, <<"finally", Top.id, LastId>>)
       ELSE /\ stack' = [stack EXCEPT ![Len(stack)] = [Top EXCEPT !.phase = "z1"]]
            /\ UNCHANGED <<fins, obs>>
    /\ UNCHANGED <<last, caught, code, number, slots, nextId, budget, log, done, landed, handled,
                   thrownSince, bad>>

(* z = 1: the CATCH test.  Pinned text reads the global flag NOW; repaired text the sample. *)
StepZ1 ==
    /\ ~done /\ Depth > 0 /\ Top.phase = "z1"
    /\ LET flag == IF SnapshotCaught THEN Top.snap ELSE caught IN
       IF flag = 1
       THEN /\ stack' = [stack EXCEPT ![Len(stack)] = [Top EXCEPT !.phase = "catch"]]
            /\ handled' = handled \cup {Top.id}
            /\ obs' = Append(obs, <<"catch", Top.id, slots[Top.id], LastId>>)
            /\ bad' = Mark(Top.id \notin landed, "NoSpuriousHandler")
       ELSE \* Exit without handler
            /\ stack' = SubSeq(stack, 1, Len(stack) - 1)
            /\ obs' = Append(obs, <<"exit", Top.id, LastId>>)
            /\ bad' = Mark(Top.id \in landed, "HandlerSkipped")
                      \* (the exit-state marks are checked by ExitOK below)
            /\ UNCHANGED handled
    /\ UNCHANGED <<last, caught, code, number, slots, nextId, budget, log, done, fins, landed, thrownSince>>

(* --------------------------------------------------------------- queries *)
GetCode ==
    /\ InStmtContext /\ budget > 0
    /\ budget' = budget - 1
    /\ log' = Append(log, <<"getcode">>)
    /\ obs' = Append(obs, <<"code", code>>)
    /\ bad' = Mark(code # (IF thrownSince THEN "ERR" ELSE "OK"), "Sticky")
    /\ code' = "OK" /\ thrownSince' = FALSE
    /\ UNCHANGED <<stack, last, caught, number, slots, nextId, done, fins, landed, handled>>

(* err_get_msg: only meaningful at top level after a throw outside any block *)
GetMsg ==
    /\ InStmtContext /\ budget > 0 /\ Depth = 0 /\ last = <<ErrFrame>>
    /\ budget' = budget - 1
    /\ log' = Append(log, <<"getmsg">>)
    /\ obs' = Append(obs, <<"msg", number>>)
    /\ last' = <<>>
    /\ UNCHANGED <<stack, caught, code, number, slots, nextId, done, fins, landed, handled, thrownSince, bad>>

Next ==
    \/ \E k \in {"any", "var"}, f \in BOOLEAN : Open(k, f)
    \/ \E e \in Errs : Throw(e)
    \/ EndTok \/ StepZ0 \/ StepZ1 \/ GetCode \/ GetMsg

Spec == Init /\ [][Next]_vars

(***************************************************************************)
(* Properties (C19)                                                        *)
(***************************************************************************)
(* the transition-level marks: nearest handler, handler neither skipped    *)
(* nor spurious, finaliser exactly once, chain restored, sticky code       *)
NoViolation == bad = ""

(* every frame reachable from ctx->last belongs to a live activation in its body *)
NoDangling ==
    \A j \in 1..Len(last) :
        last[j].block = 1 => \E k \in 1..Len(stack) : stack[k].id = last[j].id /\ stack[k].phase = "body"

(* the chain is exactly: (optional ctx frame) followed by the frames of the bodies being executed *)
ChainShape ==
    LET bodies == SelectSeq(stack, LAMBDA r : r.phase = "body")
        own    == SelectSeq(last, LAMBDA fr : fr.block = 1)
    IN  /\ Len(own) = Len(bodies)
        /\ \A j \in 1..Len(own) : own[j].id = bodies[j].id

FinallyAtMostOnce == \A j \in 1..Len(fins) : fins[j] <= 1

(* when the program has ended the chain is NULL or the context's own frame *)
EndState == done => /\ stack = <<>>
                    /\ last \in {<<>>, <<ErrFrame>>}
                    /\ code = (IF thrownSince THEN "ERR" ELSE "OK")

(* state constraint for the exhaustive runs *)
Bound == budget >= 0

(* view without the history variables *)
View == <<stack, last, caught, code, number, slots, nextId, budget, done, fins, landed, handled,
          thrownSince, bad>>
=============================================================================
