CONSTANTS W = 2  KBits = 8  Algs = {"lehme", "xlehme"}
SPECIFICATION Spec
INVARIANTS GcdPreserved LehmerOrdered Result Bezout Terminates
CHECK_DEADLOCK FALSE
