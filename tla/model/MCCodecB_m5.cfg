CONSTANT Polys = {13, 37, 61}
CONSTANT AMax = 7
CONSTANT Tags = {0, 2, 3, 4, 5, 255}
CONSTANT Extra = {255}
SPECIFICATION Spec
INVARIANT PointCodec
INVARIANT FieldCodec
CHECK_DEADLOCK FALSE
