CONSTANT Polys = {13, 37, 61}
CONSTANT AMax = 3
SPECIFICATION Spec
INVARIANT GroupLaw
CHECK_DEADLOCK FALSE
