CONSTANT Polys = {13, 25, 37}
SPECIFICATION Spec
INVARIANT GroupLaw
CHECK_DEADLOCK FALSE
