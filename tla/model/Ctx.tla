--------------------------------- MODULE Ctx ---------------------------------
(***************************************************************************)
(* The library context as a state machine (C19, second half).  A context   *)
(* holds the selected parameter id and GROUPS of derived constants; each   *)
(* group is tagged (ghost) with the parameter id it was derived from.      *)
(* Selection procedures recompute groups as the code does:                 *)
(*   fp_prime_set (via fp_param_set)  -> mont, roots, tower                *)
(*   ep_curve_set_plain/endom/super   -> curve, gentab, map (+ glv)        *)
(*   ep2_curve_set_twist + pc_core_calc (pairing-friendly only) -> twist,gt*)
(* Threads own a context pointer (thread-local core_ctx); core_set         *)
(* switches the pointer.  Invariants:                                      *)
(*   NoStaleState  every group a computation valid under the CURRENT       *)
(*                 selection reads is tagged with the current id           *)
(*   Independence  a step of thread t changes only the context t points to *)
(* Life cycle: a context also holds the sticky error code; core_clean ends *)
(* its life (the caller's memory keeps whatever was in it), core_init on   *)
(* the same memory starts a second life, which must be that of a fresh     *)
(* context: SecondLifeIsFresh (an error raised and never fetched in the    *)
(* first life, or a selection of the first life, must not be visible).     *)
(***************************************************************************)
EXTENDS Naturals, FiniteSets, TLC

CONSTANTS Params,        \* parameter ids
          Kind,          \* Params -> {"plain", "endom", "pairf"}
          Contexts, Threads, MaxSteps,
          ResetCode      \* TRUE: core_init clears the sticky code (as the code does); FALSE: a control that must fail

Groups == {"mont", "roots", "tower", "curve", "gentab", "map", "glv", "twist", "gt"}
FieldGroups == {"mont", "roots", "tower"}
CurveGroups(k) == {"curve", "gentab", "map"} \cup (IF k \in {"endom", "pairf"} THEN {"glv"} ELSE {})
PairGroups == {"twist", "gt"}
(* what a computation under a selection of kind k may read *)
Reads(k) == FieldGroups \cup CurveGroups(k) \cup (IF k = "pairf" THEN PairGroups ELSE {})

NoneId == "none"
VARIABLES ctx,     \* Contexts -> [param, tag: Groups -> Params \cup {NoneId}]
          cur,     \* Threads -> Contexts
          pc,      \* Threads -> [st: "idle" | "curve" | "pair", id]: a selection in progress is multi-step
          steps, lastActor, prevCtx,
          lastAct  \* name of the last action (ghost)
vars == <<ctx, cur, pc, steps, lastActor, prevCtx, lastAct>>

Idle == [st |-> "idle", id |-> NoneId]
Fresh == [param |-> NoneId, tag |-> [g \in Groups |-> NoneId], code |-> 0, live |-> TRUE]
Init == /\ ctx = [c \in Contexts |-> Fresh]
        /\ cur \in {f \in [Threads -> Contexts] : \A s, t \in Threads : s # t => f[s] # f[t]}
        /\ pc = [t \in Threads |-> Idle]
        /\ steps = 0 /\ lastActor = (CHOOSE t \in Threads : TRUE) /\ prevCtx = ctx /\ lastAct = "start"

Retag(c, gs, id) == [ctx EXCEPT ![c].tag = [g \in Groups |-> IF g \in gs THEN id ELSE ctx[c].tag[g]]]

(* ep_param_set(id) is three separate steps, like the code: field, curve, (pairing data) *)
SelField(t, id) == /\ pc[t].st = "idle" /\ steps < MaxSteps /\ ctx[cur[t]].live /\ lastAct' = "sel"
                   /\ ctx' = [Retag(cur[t], FieldGroups, id) EXCEPT ![cur[t]].param = NoneId]
                   /\ pc' = [pc EXCEPT ![t] = [st |-> "curve", id |-> id]]
                   /\ steps' = steps + 1 /\ lastActor' = t /\ prevCtx' = ctx /\ UNCHANGED cur
SelCurve(t) == /\ pc[t].st = "curve"
               /\ LET id == pc[t].id IN
                  /\ ctx' = IF Kind[id] = "pairf"
                            THEN Retag(cur[t], CurveGroups(Kind[id]), id)
                            ELSE [Retag(cur[t], CurveGroups(Kind[id]), id) EXCEPT ![cur[t]].param = id]
                  /\ pc' = [pc EXCEPT ![t] = IF Kind[id] = "pairf" THEN [st |-> "pair", id |-> id] ELSE Idle]
               /\ lastActor' = t /\ prevCtx' = ctx /\ lastAct' = "sel" /\ UNCHANGED <<cur, steps>>
SelPair(t) == /\ pc[t].st = "pair"
              /\ LET id == pc[t].id IN
                 ctx' = [Retag(cur[t], PairGroups, id) EXCEPT ![cur[t]].param = id]
              /\ pc' = [pc EXCEPT ![t] = Idle]
              /\ lastActor' = t /\ prevCtx' = ctx /\ lastAct' = "sel" /\ UNCHANGED <<cur, steps>>
(* core_set: a thread points to another context nobody else is using *)
Switch(t, c) == /\ pc[t].st = "idle" /\ steps < MaxSteps
                /\ \A s \in Threads : cur[s] # c
                /\ cur' = [cur EXCEPT ![t] = c]
                /\ steps' = steps + 1 /\ lastActor' = t /\ prevCtx' = ctx /\ lastAct' = "switch" /\ UNCHANGED <<ctx, pc>>
(* an error raised outside any block is recorded in the context; err_get_code fetches and clears it *)
Throw(t) == /\ pc[t].st = "idle" /\ steps < MaxSteps /\ ctx[cur[t]].live /\ ctx[cur[t]].code = 0
            /\ ctx' = [ctx EXCEPT ![cur[t]].code = 1]
            /\ steps' = steps + 1 /\ lastActor' = t /\ prevCtx' = ctx /\ lastAct' = "throw" /\ UNCHANGED <<cur, pc>>
Fetch(t) == /\ pc[t].st = "idle" /\ steps < MaxSteps /\ ctx[cur[t]].live /\ ctx[cur[t]].code = 1
            /\ ctx' = [ctx EXCEPT ![cur[t]].code = 0]
            /\ steps' = steps + 1 /\ lastActor' = t /\ prevCtx' = ctx /\ lastAct' = "fetch" /\ UNCHANGED <<cur, pc>>
(* core_clean: the life of the context ends; its memory keeps the code (and stale bytes that nothing may read) *)
Clean(t) == /\ pc[t].st = "idle" /\ steps < MaxSteps /\ ctx[cur[t]].live
            /\ ctx' = [ctx EXCEPT ![cur[t]] = [Fresh EXCEPT !.live = FALSE, !.code = ctx[cur[t]].code]]
            /\ steps' = steps + 1 /\ lastActor' = t /\ prevCtx' = ctx /\ lastAct' = "clean" /\ UNCHANGED <<cur, pc>>
(* core_init on the same memory: a second life *)
ReInit(t) == /\ pc[t].st = "idle" /\ steps < MaxSteps /\ ~ctx[cur[t]].live
             /\ ctx' = [ctx EXCEPT ![cur[t]] = IF ResetCode THEN Fresh ELSE [Fresh EXCEPT !.code = ctx[cur[t]].code]]
             /\ steps' = steps + 1 /\ lastActor' = t /\ prevCtx' = ctx /\ lastAct' = "init" /\ UNCHANGED <<cur, pc>>

Next == \E t \in Threads : \/ \E id \in Params : SelField(t, id)
                           \/ SelCurve(t) \/ SelPair(t)
                           \/ \E c \in Contexts : Switch(t, c)
                           \/ Throw(t) \/ Fetch(t) \/ Clean(t) \/ ReInit(t)
Spec == Init /\ [][Next]_vars

(* a context with a completed selection: everything its computations read is current *)
NoStaleState ==
    \A c \in Contexts :
        ctx[c].param # NoneId =>
            \A g \in Reads(Kind[ctx[c].param]) : ctx[c].tag[g] = ctx[c].param
(* the last step changed at most the context its actor points to *)
Independence == \A c \in Contexts : c # cur[lastActor] => ctx[c] = prevCtx[c]
(* the second life of a context is that of a fresh one; a dead context holds no selection *)
SecondLifeIsFresh == lastAct = "init" => ctx[cur[lastActor]] = Fresh
DeadHoldsNothing == \A c \in Contexts : ~ctx[c].live => ctx[c].param = NoneId
=============================================================================
