--------------------------------- MODULE Ctx ---------------------------------
(***************************************************************************)
(* The library context as a state machine (C19, second half).  A context   *)
(* holds the selected parameter id and GROUPS of derived constants; each   *)
(* group is tagged (ghost) with the parameter id it was derived from.      *)
(* Selection procedures recompute groups as the code does:                 *)
(*   fp_prime_set (via fp_param_set)  -> mont, roots, tower                *)
(*   ep_curve_set_plain/endom/super   -> curve, gentab, map (+ glv)        *)
(*   ep2_curve_set_twist + pc_core_calc (pairing-friendly only) -> twist,gt*)
(* Threads own a context pointer (thread-local core_ctx); core_set         *)
(* switches the pointer.  Invariants:                                      *)
(*   NoStaleState  every group a computation valid under the CURRENT       *)
(*                 selection reads is tagged with the current id           *)
(*   Independence  a step of thread t changes only the context t points to *)
(***************************************************************************)
EXTENDS Naturals, FiniteSets, TLC

CONSTANTS Params,        \* parameter ids
          Kind,          \* Params -> {"plain", "endom", "pairf"}
          Contexts, Threads, MaxSteps

Groups == {"mont", "roots", "tower", "curve", "gentab", "map", "glv", "twist", "gt"}
FieldGroups == {"mont", "roots", "tower"}
CurveGroups(k) == {"curve", "gentab", "map"} \cup (IF k \in {"endom", "pairf"} THEN {"glv"} ELSE {})
PairGroups == {"twist", "gt"}
(* what a computation under a selection of kind k may read *)
Reads(k) == FieldGroups \cup CurveGroups(k) \cup (IF k = "pairf" THEN PairGroups ELSE {})

NoneId == "none"
VARIABLES ctx,     \* Contexts -> [param, tag: Groups -> Params \cup {NoneId}]
          cur,     \* Threads -> Contexts
          pc,      \* Threads -> [st: "idle" | "curve" | "pair", id]: a selection in progress is multi-step
          steps, lastActor, prevCtx
vars == <<ctx, cur, pc, steps, lastActor, prevCtx>>

Idle == [st |-> "idle", id |-> NoneId]
Fresh == [param |-> NoneId, tag |-> [g \in Groups |-> NoneId]]
Init == /\ ctx = [c \in Contexts |-> Fresh]
        /\ cur \in {f \in [Threads -> Contexts] : \A s, t \in Threads : s # t => f[s] # f[t]}
        /\ pc = [t \in Threads |-> Idle]
        /\ steps = 0 /\ lastActor = (CHOOSE t \in Threads : TRUE) /\ prevCtx = ctx

Retag(c, gs, id) == [ctx EXCEPT ![c].tag = [g \in Groups |-> IF g \in gs THEN id ELSE ctx[c].tag[g]]]

(* ep_param_set(id) is three separate steps, like the code: field, curve, (pairing data) *)
SelField(t, id) == /\ pc[t].st = "idle" /\ steps < MaxSteps
                   /\ ctx' = [Retag(cur[t], FieldGroups, id) EXCEPT ![cur[t]].param = NoneId]
                   /\ pc' = [pc EXCEPT ![t] = [st |-> "curve", id |-> id]]
                   /\ steps' = steps + 1 /\ lastActor' = t /\ prevCtx' = ctx /\ UNCHANGED cur
SelCurve(t) == /\ pc[t].st = "curve"
               /\ LET id == pc[t].id IN
                  /\ ctx' = IF Kind[id] = "pairf"
                            THEN Retag(cur[t], CurveGroups(Kind[id]), id)
                            ELSE [Retag(cur[t], CurveGroups(Kind[id]), id) EXCEPT ![cur[t]].param = id]
                  /\ pc' = [pc EXCEPT ![t] = IF Kind[id] = "pairf" THEN [st |-> "pair", id |-> id] ELSE Idle]
               /\ lastActor' = t /\ prevCtx' = ctx /\ UNCHANGED <<cur, steps>>
SelPair(t) == /\ pc[t].st = "pair"
              /\ LET id == pc[t].id IN
                 ctx' = [Retag(cur[t], PairGroups, id) EXCEPT ![cur[t]].param = id]
              /\ pc' = [pc EXCEPT ![t] = Idle]
              /\ lastActor' = t /\ prevCtx' = ctx /\ UNCHANGED <<cur, steps>>
(* core_set: a thread points to another context nobody else is using *)
Switch(t, c) == /\ pc[t].st = "idle" /\ steps < MaxSteps
                /\ \A s \in Threads : cur[s] # c
                /\ cur' = [cur EXCEPT ![t] = c]
                /\ steps' = steps + 1 /\ lastActor' = t /\ prevCtx' = ctx /\ UNCHANGED <<ctx, pc>>

Next == \E t \in Threads : \/ \E id \in Params : SelField(t, id)
                           \/ SelCurve(t) \/ SelPair(t)
                           \/ \E c \in Contexts : Switch(t, c)
Spec == Init /\ [][Next]_vars

(* a context with a completed selection: everything its computations read is current *)
NoStaleState ==
    \A c \in Contexts :
        ctx[c].param # NoneId =>
            \A g \in Reads(Kind[ctx[c].param]) : ctx[c].tag[g] = ctx[c].param
(* the last step changed at most the context its actor points to *)
Independence == \A c \in Contexts : c # cur[lastActor] => ctx[c] = prevCtx[c]
=============================================================================
