SPECIFICATION Spec
POSTCONDITION Reached
CHECK_DEADLOCK FALSE
