------------------------------ MODULE FpxTrace ------------------------------
(***************************************************************************)
(* Trace specification for the extension-field towers (C10).  Each event   *)
(* is one public fpN call recorded by harness/drv_fpx.c with the RAW       *)
(* coefficient vectors of its inputs (before) and outputs (after), the     *)
(* field header and the tower constants as read from the library.  An      *)
(* event is accepted iff FpxSpec - generic polynomial arithmetic in the    *)
(* quotient rings those constants define (lib/Tower) - explains it.        *)
(* Stateless: every event carries everything it is judged by.              *)
(***************************************************************************)
EXTENDS FpxSpec, TLC, Json, IOUtils

Events == ndJsonDeserialize(IOEnv.TRACE)
KnownKeys == ndJsonDeserialize(IOEnv.KNOWN)
FpxKnown(e) == LET k == FpxKnownKey(e) IN
              IF k # "" /\ \E j \in 1..Len(KnownKeys) : KnownKeys[j].key = k THEN k ELSE ""
VARIABLE l

Init == l = 1
Next == /\ l <= Len(Events)
        /\ LET e == Events[l] IN
             \/ FpxAccept(e)
             \/ /\ FpxKnown(e) # ""
                /\ PrintT(<<"@@", "KF", FpxKnown(e), e.i>>)
        /\ l' = l + 1
Spec == Init /\ [][Next]_l
Reached == PrintT(<<"@@", "REACHED", TLCGet("stats").diameter - 1>>)
=============================================================================
