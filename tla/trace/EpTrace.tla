------------------------------ MODULE EpTrace ------------------------------
(***************************************************************************)
(* Trace specification for prime curves (C03).  Each event is one public   *)
(* ep call recorded by harness/drv_ep.c with the RAW projection of its     *)
(* inputs (before) and outputs (after) plus the field header and the raw   *)
(* curve coefficients.  An event is accepted iff the outputs are what      *)
(* EpSpec defines for these inputs: the abstract output point equals the   *)
(* result of lib/Curve (affine group law, [k]P by double-and-add) on the   *)
(* abstract input points.  The same spec validates the 8-bit tiny worlds   *)
(* and the shipped 256/381-bit builds: values are byte sequences in both.  *)
(***************************************************************************)
EXTENDS EpSpec, TLC, Json, IOUtils

Events == ndJsonDeserialize(IOEnv.TRACE)
KnownKeys == ndJsonDeserialize(IOEnv.KNOWN)
Listed(k) == k # "" /\ \E j \in 1..Len(KnownKeys) : KnownKeys[j].key = k
EpKnown(e) == IF Listed(EpKnownKey(e)) THEN EpKnownKey(e)
              ELSE IF Listed(EpKnownKeyAlt(e)) THEN EpKnownKeyAlt(e) ELSE ""
VARIABLE l

Init == l = 1
Next == /\ l <= Len(Events)
        /\ LET e == Events[l] IN          \* IF, not a disjunction: TLC then evaluates EpAccept as an
             IF EpAccept(e) THEN TRUE      \* expression (short-circuit) instead of enumerating its disjuncts
             ELSE /\ EpKnown(e) # ""       \* as alternative successor states
                  /\ PrintT(<<"@@", "KF", EpKnown(e), e.i>>)
        /\ l' = l + 1
Spec == Init /\ [][Next]_l
Reached == PrintT(<<"@@", "REACHED", TLCGet("stats").diameter - 1>>)
=============================================================================
