----------------------------- MODULE PpExpTrace -----------------------------
(* C04, stateless part: one event per call of the final exponentiation as a function of its own. *)
EXTENDS PpSpec, TLC, Json, IOUtils
Events == ndJsonDeserialize(IOEnv.TRACE)
VARIABLE l
Init == l = 1
Next == /\ l <= Len(Events)
        /\ FinalExp(Events[l])
        /\ l' = l + 1
Spec == Init /\ [][Next]_l
Reached == PrintT(<<"@@", "REACHED", TLCGet("stats").diameter - 1>>)
=============================================================================
