------------------------------ MODULE SigTrace ------------------------------
(***************************************************************************)
(* Trace specification for the signature schemes (C05).  Each event is one *)
(* key generation, signing or VERIFICATION call recorded by                *)
(* harness/drv_sig.c with everything the call was given and the verdict it *)
(* returned.  An event is accepted iff SigSpec - the schemes' definitions  *)
(* evaluated independently on the abstract values - explains it: the       *)
(* library's verdict must EQUAL the definition's verdict on every honest   *)
(* and on every mutated triple.  Events are independent (stateless).       *)
(***************************************************************************)
EXTENDS SigSpec, TLC, Json, IOUtils

Events == ndJsonDeserialize(IOEnv.TRACE)
KnownKeys == ndJsonDeserialize(IOEnv.KNOWN)
SigKnown(e) == LET k == SigKnownKey(e) IN
               IF k # "" /\ \E j \in 1..Len(KnownKeys) : KnownKeys[j].key = k THEN k ELSE ""
VARIABLE l

Init == l = 1
Next == /\ l <= Len(Events)
        /\ LET e == Events[l] IN
             IF SigAccept(e) THEN TRUE
             ELSE /\ SigKnown(e) # ""
                  /\ PrintT(<<"@@", "KF", SigKnown(e), e.i>>)
        /\ l' = l + 1
Spec == Init /\ [][Next]_l
Reached == PrintT(<<"@@", "REACHED", TLCGet("stats").diameter - 1>>)
=============================================================================
