------------------------------ MODULE DrbgTrace ------------------------------
(***************************************************************************)
(* Trace specification for C15: consumes the structural trace written by   *)
(* harness/drv_rand.c (hash events, gen events, API-level events) and      *)
(* steps the Hash_DRBG machine of model/DrbgSpec.                          *)
(***************************************************************************)
EXTENDS DrbgSpec, TLC, Json, IOUtils

Events == ndJsonDeserialize(IOEnv.TRACE)
VARIABLES l,       \* next event
          st,      \* [V, C, ctr]
          hs,      \* hash events since the last consumed gen/seed event
          outs     \* outputs of the gen events since the last API-level event

StateMatches(e, s) == e.V = s.V /\ e.C = s.C /\ e.ctr = s.ctr

Init == l = 1 /\ st = [V |-> <<>>, C |-> <<>>, ctr |-> 0] /\ hs = <<>> /\ outs = <<>>

Step(e) ==
    CASE e.op = "setstate" ->
            /\ st' = [V |-> e.V, C |-> e.C, ctr |-> e.ctr] /\ hs' = <<>> /\ outs' = <<>>
      [] e.op = "hash" ->
            /\ hs' = Append(hs, [in |-> e.in, out |-> e.out]) /\ UNCHANGED <<st, outs>>
      [] e.op \in {"inst", "seed"} ->
            IF Len(e.data) = 0
            THEN e.err # 0 /\ e.code = 1 /\ hs = <<>> /\ UNCHANGED <<st, hs, outs>>
            ELSE /\ e.err = 0 /\ e.code = 0
                 /\ SeedOK(st, hs, e.data, e.op = "seed")
                 /\ st' = SeedState(hs) /\ StateMatches(e, st') /\ e.seeded = 1
                 /\ hs' = <<>> /\ outs' = <<>>
      [] e.op = "gen" ->
            IF e.len > MaxReq
            THEN \* refused: no hash call, nothing returned, state untouched
                 /\ e.err # 0 /\ hs = <<>> /\ StateMatches(e, st) /\ UNCHANGED <<st, hs, outs>>
            ELSE /\ e.err = 0
                 /\ GenOK(st, hs, e.len)
                 /\ e.out = GenOut(hs, e.len)
                 /\ st' = GenState(st, hs, e.len) /\ StateMatches(e, st')
                 /\ hs' = <<>> /\ outs' = Append(outs, e.out)
      [] e.op = "genret" ->
            \* return of a direct rand_bytes call: exactly one gen event happened
            /\ hs = <<>>
            /\ IF e.len > MaxReq THEN e.err # 0 /\ e.code = 1 /\ outs = <<>>
               ELSE e.err = 0 /\ e.code = 0 /\ Len(outs) = 1
            /\ outs' = <<>> /\ UNCHANGED <<st, hs>>
      [] e.op = "bn_rand" ->
            \* one request of ceil(bits / digit) digits; value = little-endian bytes masked
            /\ e.err = 0 /\ e.code = 0 /\ hs = <<>> /\ Len(outs) = 1
            /\ Len(outs[1]) = RandLen(e.bits, e.w)
            /\ LET v == RandVal(outs[1], e.bits) IN
                 /\ BNorm(e.a.d) = v
                 /\ e.a.s = (IF e.sign = 1 /\ v # <<>> THEN 1 ELSE 0)
                 /\ BBits(v) <= e.bits
            /\ outs' = <<>> /\ UNCHANGED <<st, hs>>
      [] e.op = "bn_rand_mod" ->
            \* oversample by 40 bits, reduce, reject 0: every candidate but the last was rejected
            /\ e.err = 0 /\ e.code = 0 /\ hs = <<>> /\ Len(outs) >= 1
            /\ LET b    == BNorm(e.b.d)
                   bits == BBits(b) + 40
                   cand(j) == BMod(RandVal(outs[j], bits), b)
               IN  /\ \A j \in 1..Len(outs) : Len(outs[j]) = RandLen(bits, e.w)
                   /\ \A j \in 1..(Len(outs) - 1) : cand(j) = <<>>
                   /\ cand(Len(outs)) # <<>>
                   /\ BNorm(e.a.d) = cand(Len(outs))
                   /\ e.a.s = e.b.s
                   /\ BLt(BNorm(e.a.d), b)
            /\ outs' = <<>> /\ UNCHANGED <<st, hs>>
      [] OTHER -> FALSE

Next == l <= Len(Events) /\ Step(Events[l]) /\ l' = l + 1
Spec == Init /\ [][Next]_<<l, st, hs, outs>>
Reached == PrintT(<<"@@", "REACHED", TLCGet("stats").diameter - 1>>)
=============================================================================
