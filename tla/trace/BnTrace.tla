------------------------------ MODULE BnTrace ------------------------------
(***************************************************************************)
(* Trace specification for the integer layer (C01).  Each event is one     *)
(* public bn call recorded   by harness/drv_bn.c with the RAW projection   *)
(* of its inputs (before) and outputs (after).  An event is accepted iff   *)
(* the outputs are what BnSpec - the same operators the design-level model *)
(* BnObj is checked with - defines for these inputs.  The same spec        *)
(* validates the 8-bit small worlds and the shipped 64-bit build: values   *)
(* are byte sequences in both.                                             *)
(***************************************************************************)
EXTENDS BnSpec, TLC, Json, IOUtils

Events == ndJsonDeserialize(IOEnv.TRACE)
KnownKeys == ndJsonDeserialize(IOEnv.KNOWN)
BnKnown(e) == LET k == BnKnownKey(e) IN
              IF k # "" /\ \E j \in 1..Len(KnownKeys) : KnownKeys[j].key = k THEN k ELSE ""
VARIABLE l

Init == l = 1
Next == /\ l <= Len(Events)
        /\ LET e == Events[l] IN
             IF BnAccept(e) THEN TRUE
             ELSE BnKnown(e) # "" /\ PrintT(<<"@@", "KF", BnKnown(e), e.i>>)
        /\ l' = l + 1
Spec == Init /\ [][Next]_l
Reached == PrintT(<<"@@", "REACHED", TLCGet("stats").diameter - 1>>)
=============================================================================
