----------------------------- MODULE Codec3Trace -----------------------------
(***************************************************************************)
(* Trace specification for the binary codecs of extension-field and        *)
(* target-group elements (C07, third part).  Each event is one size /      *)
(* writer / reader call recorded by harness/drv_codec3.c: the raw          *)
(* projection of the input element or the input bytes, pack flag, buffer   *)
(* length, output bytes or decoded object, guard verdict, re-encoding, the *)
(* error.  An event is accepted iff model/Codec3Spec - built on the format *)
(* operators of model/CodecX that MCCodecX checks on a whole cyclotomic    *)
(* subgroup - explains verdict AND value.                                  *)
(***************************************************************************)
EXTENDS Codec3Spec, TLC, Json, IOUtils

Events == ndJsonDeserialize(IOEnv.TRACE)
KnownKeys == ndJsonDeserialize(IOEnv.KNOWN)
Enabled3(k) == \E j \in 1..Len(KnownKeys) : KnownKeys[j].key = k
Codec3Known(e) == LET ks == Codec3KnownKeys(e) IN ks # {} /\ \A k \in ks : Enabled3(k)
VARIABLE l

Init == l = 1
Next == /\ l <= Len(Events)
        /\ LET e == Events[l] IN
             IF Codec3Accept(e) THEN TRUE
             ELSE /\ Codec3Known(e)
                  /\ \A k \in Codec3KnownKeys(e) : PrintT(<<"@@", "KF", k, e.i>>)
        /\ l' = l + 1
Spec == Init /\ [][Next]_l
Reached == PrintT(<<"@@", "REACHED", TLCGet("stats").diameter - 1>>)
=============================================================================
