------------------------------ MODULE Ep2Trace ------------------------------
(***************************************************************************)
(* Trace specification for the twists over F_p2 (C11).  Each event is one  *)
(* public ep2 call recorded by harness/drv_ep2.c with the RAW projection   *)
(* of its inputs (before) and outputs (after) plus the field header, the   *)
(* tower constant and the raw twist coefficients.  An event is accepted    *)
(* iff the outputs are what Ep2Spec defines for these inputs: the abstract *)
(* output point equals the result of lib/CurveX (affine group law over the *)
(* quotient ring F_p[u]/(u^2 - usq), [k]Q by double-and-add) on the        *)
(* abstract input points; Frobenius = [p^j mod r] on subgroup points;      *)
(* cofactor map: image on the curve and annihilated by r.                  *)
(***************************************************************************)
EXTENDS Ep2Spec, TLC, Json, IOUtils

Events == ndJsonDeserialize(IOEnv.TRACE)
KnownKeys == ndJsonDeserialize(IOEnv.KNOWN)
Ep2Known(e) == LET k == Ep2KnownKey(e) IN
               IF k # "" /\ \E j \in 1..Len(KnownKeys) : KnownKeys[j].key = k THEN k ELSE ""
VARIABLE l

Init == l = 1
Next == /\ l <= Len(Events)
        /\ LET e == Events[l] IN           \* IF, not a disjunction: TLC then evaluates Ep2Accept as an
             IF Ep2Accept(e) THEN TRUE      \* expression (short-circuit) instead of enumerating its disjuncts
             ELSE /\ Ep2Known(e) # ""
                  /\ PrintT(<<"@@", "KF", Ep2Known(e), e.i>>)
        /\ l' = l + 1
Spec == Init /\ [][Next]_l
Reached == PrintT(<<"@@", "REACHED", TLCGet("stats").diameter - 1>>)
=============================================================================
