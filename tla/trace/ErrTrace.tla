------------------------------ MODULE ErrTrace ------------------------------
(***************************************************************************)
(* Conformance of the real error-handling macros with model/Err (C19).     *)
(* harness/err_vm.c executes token streams with the real macros and        *)
(* records, per program, the effective tokens and the observable events.   *)
(* This spec drives Err's OWN actions with the recorded tokens (internal   *)
(* steps of a construct are taken eagerly, they consume no token), checks  *)
(* the structural invariants after every step and accepts a program iff    *)
(* the model's observation history equals the recorded one.                *)
(***************************************************************************)
EXTENDS Err, Json, IOUtils

Progs == ndJsonDeserialize(IOEnv.TRACE)
VARIABLES p, t
tvars == <<vars, p, t>>

InternalEnabled == ~done /\ (IF Depth = 0 THEN FALSE ELSE Top.phase \in {"z0", "z1"})

TInit == Init /\ p = 1 /\ t = 1 /\ TLCSet(1, 0)

StepOK == NoDangling' /\ ChainShape' /\ FinallyAtMostOnce' /\ EndState' /\ bad' = ""

Internal == /\ p <= Len(Progs) /\ InternalEnabled
            /\ (StepZ0 \/ StepZ1)
            /\ StepOK
            /\ UNCHANGED <<p, t>>

Token == /\ p <= Len(Progs) /\ ~InternalEnabled /\ ~done
         /\ t <= Len(Progs[p].toks)
         /\ LET k == Progs[p].toks[t] IN
              \/ k[1] = "open" /\ Open(k[2], k[3])
              \/ k[1] = "throw" /\ Throw(k[2])
              \/ k[1] = "end" /\ EndTok
              \/ k[1] = "getcode" /\ GetCode
              \/ k[1] = "getmsg" /\ GetMsg
         /\ StepOK
         /\ t' = t + 1 /\ p' = p

(* program finished: the recorded observation must be the model's; start the next one *)
Accept == /\ p <= Len(Progs) /\ done /\ t = Len(Progs[p].toks) + 1
          /\ obs = Progs[p].obs
          /\ TLCSet(1, p)
          /\ p' = p + 1 /\ t' = 1
          /\ stack' = <<>> /\ last' = <<>> /\ caught' = 0 /\ code' = "OK" /\ number' = NONE
          /\ slots' = <<>> /\ nextId' = 1 /\ budget' = Budget /\ log' = <<>> /\ obs' = <<>>
          /\ done' = FALSE /\ fins' = <<>> /\ landed' = {} /\ handled' = {}
          /\ thrownSince' = FALSE /\ bad' = ""

TNext == Internal \/ Token \/ Accept
TSpec == TInit /\ [][TNext]_tvars
Reached == PrintT(<<"@@", "REACHED", TLCGet(1)>>)
=============================================================================
