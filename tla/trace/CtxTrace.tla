------------------------------ MODULE CtxTrace ------------------------------
(***************************************************************************)
(* C19, context half, code -> spec: every probe recorded after an arbitrary*)
(* history of selections / context switches / concurrent threads must be   *)
(* the probe of a freshly initialised library (separate process) with the  *)
(* same last selection - the property's own formulation; model/Ctx's       *)
(* NoStaleState and Independence are what makes that hold.                 *)
(***************************************************************************)
EXTENDS Naturals, Sequences, TLC, Json, IOUtils

Events == ndJsonDeserialize(IOEnv.TRACE)
FreshTab == ndJsonDeserialize(IOEnv.FRESH)
VARIABLE l

HasFresh(id) == \E j \in 1..Len(FreshTab) : FreshTab[j].id = id
FreshOf(id) == FreshTab[CHOOSE j \in 1..Len(FreshTab) : FreshTab[j].id = id].items
Complete(items) == Len(items) > 0 /\ \A j \in 1..Len(items) : items[j].k # "THROWN"

KnownKeys == ndJsonDeserialize(IOEnv.KNOWN)
Enabled(k) == \E j \in 1..Len(KnownKeys) : KnownKeys[j].key = k
(* Known finding C19-direct-install-stale-ids: ep_curve_set_plain/endom/super and fp_prime_set_dense keep the   *)
(* ids and the pairing flag of the previously SELECTED set, so after ep_param_set(X) a directly installed        *)
(* curve (pseudo ids >= 1000) reports X's ep_param_level / ep_curve_is_pairf, and ep_map (whose expansion        *)
(* length depends on the level) differs.  Enabled only for directly installed sets, only for the items           *)
(* "flags" (bytes pairf = 3rd, level = 6th) and "map".                                                           *)
KnownStaleIds(e) ==
    /\ Enabled("C19-direct-install-stale-ids")
    /\ e.id >= 1000 /\ HasFresh(e.id) /\ Complete(e.items)
    /\ LET f == FreshOf(e.id) IN
       /\ Len(f) = Len(e.items)
       /\ \A j \in 1..Len(f) :
             \/ e.items[j] = f[j]
             \/ e.items[j].k = "map" /\ f[j].k = "map"
             \/ /\ e.items[j].k = "flags" /\ f[j].k = "flags"
                /\ \A b \in {1, 2, 4, 5} : e.items[j].v[b] = f[j].v[b]

Accept(e) == /\ e.op \in {"probe", "fresh"}
             /\ e.id > 0 /\ HasFresh(e.id)
             /\ Complete(e.items)
             /\ e.items = FreshOf(e.id)

Init == l = 1
Next == /\ l <= Len(Events)
        /\ LET e == Events[l] IN
             IF Accept(e) THEN TRUE
             ELSE e.op \in {"probe", "fresh"} /\ KnownStaleIds(e) /\ PrintT(<<"@@", "KF", "C19-direct-install-stale-ids", e.i>>)
        /\ l' = l + 1
Spec == Init /\ [][Next]_l
Reached == PrintT(<<"@@", "REACHED", TLCGet("stats").diameter - 1>>)
=============================================================================
