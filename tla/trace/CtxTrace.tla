------------------------------ MODULE CtxTrace ------------------------------
(***************************************************************************)
(* C19, context half, code -> spec: every probe recorded after an arbitrary*)
(* history of selections / context switches / concurrent threads must be   *)
(* the probe of a freshly initialised library (separate process) with the  *)
(* same last selection - the property's own formulation; model/Ctx's       *)
(* NoStaleState and Independence are what makes that hold.                 *)
(***************************************************************************)
EXTENDS Naturals, Sequences, TLC, Json, IOUtils

Events == ndJsonDeserialize(IOEnv.TRACE)
FreshTab == ndJsonDeserialize(IOEnv.FRESH)
VARIABLE l

HasFresh(id) == \E j \in 1..Len(FreshTab) : FreshTab[j].id = id
FreshOf(id) == FreshTab[CHOOSE j \in 1..Len(FreshTab) : FreshTab[j].id = id].items
Complete(items) == Len(items) > 0 /\ \A j \in 1..Len(items) : items[j].k # "THROWN"

Accept(e) == /\ e.op \in {"probe", "fresh"}
             /\ e.id > 0 /\ HasFresh(e.id)
             /\ Complete(e.items)
             /\ e.items = FreshOf(e.id)

Init == l = 1
Next == l <= Len(Events) /\ Accept(Events[l]) /\ l' = l + 1
Spec == Init /\ [][Next]_l
Reached == PrintT(<<"@@", "REACHED", TLCGet("stats").diameter - 1>>)
=============================================================================
