------------------------------ MODULE EdTrace ------------------------------
(***************************************************************************)
(* Trace specification for twisted Edwards curves (C17).  Each event is    *)
(* one public ed call (or a two-call round trip) recorded by               *)
(* harness/drv_ed.c with the RAW projection of its inputs (before) and     *)
(* outputs (after) plus the field header and the raw curve coefficients.   *)
(* An event is accepted iff the outputs are what EdSpec defines for these  *)
(* inputs: the abstract output point equals the result of lib/Edwards      *)
(* (affine unified law, [k]P by double-and-add) on the abstract input      *)
(* points.  The same spec validates the 8-bit tiny worlds and the 255-bit  *)
(* builds: values are byte sequences in both.                              *)
(***************************************************************************)
EXTENDS EdSpec, TLC, Json, IOUtils

Events == ndJsonDeserialize(IOEnv.TRACE)
KnownKeys == ndJsonDeserialize(IOEnv.KNOWN)
EdKnown(e) == LET k == EdKnownKey(e) IN
              IF k # "" /\ \E j \in 1..Len(KnownKeys) : KnownKeys[j].key = k THEN k ELSE ""
VARIABLE l

Init == l = 1
Next == /\ l <= Len(Events)
        /\ LET e == Events[l] IN          \* IF, not a disjunction: TLC then evaluates EdAccept as an
             IF EdAccept(e) THEN TRUE      \* expression (short-circuit) instead of enumerating its disjuncts
             ELSE /\ EdKnown(e) # ""       \* as alternative successor states
                  /\ PrintT(<<"@@", "KF", EdKnown(e), e.i>>)
        /\ l' = l + 1
Spec == Init /\ [][Next]_l
Reached == PrintT(<<"@@", "REACHED", TLCGet("stats").diameter - 1>>)
=============================================================================
