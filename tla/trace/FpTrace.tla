------------------------------ MODULE FpTrace ------------------------------
(***************************************************************************)
(* Trace specification for the prime-field layer (C02).  Each event is one *)
(* public fp call recorded by harness/drv_fp.c with the RAW digits of its  *)
(* inputs (before) and outputs (after) and the field header (p, digit      *)
(* size, digits, Montgomery flag).  An event is accepted iff FpSpec - the  *)
(* definition by arithmetic modulo p on abstract values plus the           *)
(* canonical-range clause on every output - explains it.  The same spec    *)
(* validates the 8-bit tiny worlds and the 255/256/381-bit builds.         *)
(***************************************************************************)
EXTENDS FpSpec, TLC, Json, IOUtils

Events == ndJsonDeserialize(IOEnv.TRACE)
KnownKeys == ndJsonDeserialize(IOEnv.KNOWN)
FpKnown(e) == LET k == FpKnownKey(e) IN
              IF k # "" /\ \E j \in 1..Len(KnownKeys) : KnownKeys[j].key = k THEN k ELSE ""
VARIABLE l

Init == l = 1
Next == /\ l <= Len(Events)
        /\ LET e == Events[l] IN
             \/ FpAccept(e)
             \/ /\ FpKnown(e) # ""
                /\ PrintT(<<"@@", "KF", FpKnown(e), e.i>>)
        /\ l' = l + 1
Spec == Init /\ [][Next]_l
Reached == PrintT(<<"@@", "REACHED", TLCGet("stats").diameter - 1>>)
=============================================================================
