CONSTANTS Cap = 10  NSlots = 4  Digs = 4  DigBytes = 1
SPECIFICATION TSpec
POSTCONDITION Reached
CHECK_DEADLOCK FALSE
