------------------------------ MODULE MpcTrace ------------------------------
(***************************************************************************)
(* Trace specification for the C06 extension: each event is one complete   *)
(* two-party run of a secret-shared group multiplication (or one           *)
(* cp_ped_com call) recorded by harness/drv_mpc.c; it is accepted iff      *)
(* model/MpcSpec explains it.  Events are independent (stateless).         *)
(***************************************************************************)
EXTENDS MpcSpec, TLC, Json, IOUtils

Events == ndJsonDeserialize(IOEnv.TRACE)
KnownKeys == ndJsonDeserialize(IOEnv.KNOWN)
MpcKnown(e) == LET k == MpcKnownKey(e) IN
               IF k # "" /\ \E j \in 1..Len(KnownKeys) : KnownKeys[j].key = k THEN k ELSE ""
VARIABLE l

Init == l = 1
Next == /\ l <= Len(Events)
        /\ LET e == Events[l] IN
             IF MpcAccept(e) THEN TRUE
             ELSE /\ MpcKnown(e) # ""
                  /\ PrintT(<<"@@", "KF", MpcKnown(e), e.i>>)
        /\ l' = l + 1
Spec == Init /\ [][Next]_l
Reached == PrintT(<<"@@", "REACHED", TLCGet("stats").diameter - 1>>)
=============================================================================
