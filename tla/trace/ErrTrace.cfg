CONSTANTS Budget = 100000  MaxDepth = 64  SnapshotCaught = TRUE
SPECIFICATION TSpec
POSTCONDITION Reached
CHECK_DEADLOCK FALSE
