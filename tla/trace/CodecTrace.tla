----------------------------- MODULE CodecTrace -----------------------------
(***************************************************************************)
(* Trace specification for the external representations (C07).  Each event *)
(* is one reader / writer call recorded by harness/drv_codec.c: the input  *)
(* bytes or the raw projection of the input object, the buffer length, the *)
(* output bytes or object, the guard verdict, the error.  An event is      *)
(* accepted iff model/CodecSpec - built on the operators of model/Codec    *)
(* that MCCodec checks exhaustively - explains verdict AND value.  The     *)
(* same spec validates the 8-bit tiny world and the shipped builds.        *)
(***************************************************************************)
EXTENDS CodecSpec, TLC, Json, IOUtils

Events == ndJsonDeserialize(IOEnv.TRACE)
KnownKeys == ndJsonDeserialize(IOEnv.KNOWN)
Enabled(k) == \E j \in 1..Len(KnownKeys) : KnownKeys[j].key = k
(* the event is explained by known findings that are ALL enabled *)
CodecKnown(e) == LET ks == CodecKnownKeys(e) IN ks # {} /\ \A k \in ks : Enabled(k)
VARIABLE l

Init == l = 1
Next == /\ l <= Len(Events)
        /\ LET e == Events[l] IN
             IF CodecAccept(e) THEN TRUE
             ELSE /\ CodecKnown(e)
                  /\ \A k \in CodecKnownKeys(e) : PrintT(<<"@@", "KF", k, e.i>>)
        /\ l' = l + 1
Spec == Init /\ [][Next]_l
Reached == PrintT(<<"@@", "REACHED", TLCGet("stats").diameter - 1>>)
=============================================================================
