----------------------------- MODULE CodecTrace -----------------------------
(***************************************************************************)
(* Trace specification for the external representations (C07).  Each event *)
(* is one reader / writer call recorded by harness/drv_codec.c: the input  *)
(* bytes or the raw projection of the input object, the buffer length, the *)
(* output bytes or object, the guard verdict, the error.  An event is      *)
(* accepted iff model/CodecSpec - built on the operators of model/Codec    *)
(* that MCCodec checks exhaustively - explains verdict AND value.  The     *)
(* same spec validates the 8-bit tiny world and the shipped builds.        *)
(***************************************************************************)
EXTENDS CodecSpec, TLC, Json, IOUtils

Events == ndJsonDeserialize(IOEnv.TRACE)
KnownKeys == ndJsonDeserialize(IOEnv.KNOWN)
CodecKnown(e) == LET k == CodecKnownKey(e) IN
                 IF k # "" /\ \E j \in 1..Len(KnownKeys) : KnownKeys[j].key = k THEN k ELSE ""
VARIABLE l

Init == l = 1
Next == /\ l <= Len(Events)
        /\ LET e == Events[l] IN
             IF CodecAccept(e) THEN TRUE
             ELSE /\ CodecKnown(e) # ""
                  /\ PrintT(<<"@@", "KF", CodecKnown(e), e.i>>)
        /\ l' = l + 1
Spec == Init /\ [][Next]_l
Reached == PrintT(<<"@@", "REACHED", TLCGet("stats").diameter - 1>>)
=============================================================================
