----------------------------- MODULE Codec2Trace -----------------------------
(***************************************************************************)
(* Trace specification for the external representations of binary-field    *)
(* elements and binary-curve points (C07, second part).  Each event is one *)
(* reader / writer call recorded by harness/drv_codec2.c: the input bytes  *)
(* or the raw projection of the input object, the buffer length, the       *)
(* output bytes or object, the guard verdict, the error.  An event is      *)
(* accepted iff model/Codec2Spec - built on the operators of model/CodecB  *)
(* that MCCodecB checks exhaustively - explains verdict AND value.  The    *)
(* same spec validates the 8-bit tiny world GF(2^17) and the shipped       *)
(* GF(2^283) build (NIST-B283, NIST-K283).                                 *)
(***************************************************************************)
EXTENDS Codec2Spec, TLC, Json, IOUtils

Events == ndJsonDeserialize(IOEnv.TRACE)
KnownKeys == ndJsonDeserialize(IOEnv.KNOWN)
Enabled(k) == \E j \in 1..Len(KnownKeys) : KnownKeys[j].key = k
(* the event is explained by known findings that are ALL enabled *)
Codec2Known(e) == LET ks == Codec2KnownKeys(e) IN ks # {} /\ \A k \in ks : Enabled(k)
VARIABLE l

Init == l = 1
Next == /\ l <= Len(Events)
        /\ LET e == Events[l] IN
             IF Codec2Accept(e) THEN TRUE
             ELSE /\ Codec2Known(e)
                  /\ \A k \in Codec2KnownKeys(e) : PrintT(<<"@@", "KF", k, e.i>>)
        /\ l' = l + 1
Spec == Init /\ [][Next]_l
Reached == PrintT(<<"@@", "REACHED", TLCGet("stats").diameter - 1>>)
=============================================================================
