CONSTANTS Cap = 34  NSlots = 4  Digs = 16  DigBytes = 8
SPECIFICATION TSpec
POSTCONDITION Reached
CHECK_DEADLOCK FALSE
