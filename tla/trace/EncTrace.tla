------------------------------ MODULE EncTrace ------------------------------
(***************************************************************************)
(* Trace specification for C06: each event is one call / protocol run      *)
(* recorded by harness/drv_enc.c; it is accepted iff the definitions in    *)
(* EncSpec (and EncPcSpec for the pairing-based protocols) explain it.     *)
(* Events are independent (stateless): every event carries its key.        *)
(***************************************************************************)
EXTENDS EncPcSpec, TLC, Json, IOUtils

Events == ndJsonDeserialize(IOEnv.TRACE)
KnownKeys == ndJsonDeserialize(IOEnv.KNOWN)
EncKnown(e) == LET k == EncKnownKey(e) IN
               IF k # "" /\ \E j \in 1..Len(KnownKeys) : KnownKeys[j].key = k THEN k ELSE ""
VARIABLE l

Init == l = 1
Next == /\ l <= Len(Events)
        /\ LET e == Events[l] IN
             IF EncAccept(e) THEN TRUE
             ELSE /\ EncKnown(e) # ""
                  /\ PrintT(<<"@@", "KF", EncKnown(e), e.i>>)
        /\ l' = l + 1
Spec == Init /\ [][Next]_l
Reached == PrintT(<<"@@", "REACHED", TLCGet("stats").diameter - 1>>)
=============================================================================
