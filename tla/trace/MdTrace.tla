------------------------------ MODULE MdTrace ------------------------------
(***************************************************************************)
(* Trace specification for C14.  Each event is one call of the hash / MAC  *)
(* / KDF / XMD / AES-CBC interface (or one scripted session of the SHA-2   *)
(* streaming interface) recorded by harness/drv_md.c with its inputs and   *)
(* the bytes it produced.  An event is accepted iff MdSpec - i.e. the      *)
(* TLA+ transcriptions of FIPS 180-4, RFC 7693, RFC 2104, KDF2 / MGF1,     *)
(* RFC 9380, FIPS 197 / SP 800-38A - explains the output.                  *)
(***************************************************************************)
EXTENDS MdSpec, TLC, Json, IOUtils

Events == ndJsonDeserialize(IOEnv.TRACE)
KnownKeys == ndJsonDeserialize(IOEnv.KNOWN)
MdKnown(e) == LET k == MdKnownKey(e) IN
              IF k # "" /\ \E j \in 1..Len(KnownKeys) : KnownKeys[j].key = k THEN k ELSE ""
VARIABLE l

Init == l = 1
(* The acceptance test is the condition of an IF: TLC then evaluates it as *)
(* an ordinary expression (LET definitions are evaluated once and cached);  *)
(* as a disjunct of the action it would be expanded in action mode, where   *)
(* every use of a LET definition re-evaluates it.                           *)
Next == /\ l <= Len(Events)
        /\ LET e == Events[l] IN
             IF MdAccept(e) THEN TRUE
             ELSE /\ MdKnown(e) # ""
                  /\ PrintT(<<"@@", "KF", MdKnown(e), e.i>>)
        /\ l' = l + 1
Spec == Init /\ [][Next]_l
Reached == PrintT(<<"@@", "REACHED", TLCGet("stats").diameter - 1>>)
=============================================================================
