------------------------------ MODULE TauTrace ------------------------------
(***************************************************************************)
(* Trace specification for the tau-adic recodings and the signed aligned   *)
(* column recoding of the bn module (C09, extension).  Each event is one   *)
(* public call recorded by harness/drv_tau.c with the RAW projection of    *)
(* its inputs (before) and outputs (after); it is accepted iff the outputs *)
(* are what TauSpec defines for these inputs.  Abnormal executions (CRASH  *)
(* / TIMEOUT events) are never accepted.                                   *)
(***************************************************************************)
EXTENDS TauSpec, TLC, Json, IOUtils

Events == ndJsonDeserialize(IOEnv.TRACE)
KnownKeys == ndJsonDeserialize(IOEnv.KNOWN)
TauKnown(e) == LET k == TauKnownKey(e) IN
               IF k # "" /\ \E j \in 1..Len(KnownKeys) : KnownKeys[j].key = k THEN k ELSE ""
VARIABLE pos

Init == pos = 1
Next == /\ pos <= Len(Events)
        /\ LET e == Events[pos] IN
             IF TauAccept(e) THEN TRUE
             ELSE /\ TauKnown(e) # ""
                  /\ PrintT(<<"@@", "KF", TauKnown(e), e.i>>)
        /\ pos' = pos + 1
Spec == Init /\ [][Next]_pos
Reached == PrintT(<<"@@", "REACHED", TLCGet("stats").diameter - 1>>)
=============================================================================
