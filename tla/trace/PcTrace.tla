------------------------------ MODULE PcTrace ------------------------------
(***************************************************************************)
(* Trace specification for the pairing groups (C12).  Each event is one    *)
(* public g1 / g2 / gt call recorded by harness/drv_pc.c with the RAW      *)
(* projection of its inputs (before) and outputs (after) plus the field    *)
(* header, the tower constants and the raw curve / twist coefficients.  An *)
(* event is accepted iff PcSpec explains it: a validity predicate answers  *)
(* 1 exactly when the element is not the identity, on the curve (in the    *)
(* cyclotomic subgroup) and annihilated by r - all decided by the          *)
(* definitions of lib/Curve, lib/CurveX, lib/Tower; a multiplication /     *)
(* exponentiation returns the k-fold group operation.                      *)
(***************************************************************************)
EXTENDS PcSpec, TLC, Json, IOUtils

Events == ndJsonDeserialize(IOEnv.TRACE)
KnownKeys == ndJsonDeserialize(IOEnv.KNOWN)
PcKnown(e) == LET k == PcKnownKey(e) IN
              IF k # "" /\ \E j \in 1..Len(KnownKeys) : KnownKeys[j].key = k THEN k ELSE ""
VARIABLE l

Init == l = 1
Next == /\ l <= Len(Events)
        /\ LET e == Events[l] IN          \* IF, not a disjunction: TLC then evaluates PcAccept as an
             IF PcAccept(e) THEN TRUE      \* expression (short-circuit) instead of enumerating its disjuncts
             ELSE /\ PcKnown(e) # ""
                  /\ PrintT(<<"@@", "KF", PcKnown(e), e.i>>)
        /\ l' = l + 1
Spec == Init /\ [][Next]_l
Reached == PrintT(<<"@@", "REACHED", TLCGet("stats").diameter - 1>>)
=============================================================================
