---------------------------- MODULE RelicSysTrace ----------------------------
(***************************************************************************)
(* Call histories across the integer, field and curve layers, executed by  *)
(* harness/relic_vm2.c against the real library under CHANGING parameter   *)
(* selections, validated with the machine of model/RelicSys.  Each event   *)
(* names the call and its slot numbers, reports whether it threw / what it *)
(* returned, and carries the raw projection of EVERY slot of every type    *)
(* after the call.  The event is explained iff an outcome of the machine   *)
(* for this call from the CURRENT machine state yields a state that the    *)
(* projection refines: every KNOWN integer is in normal form with the      *)
(* machine's value, every KNOWN field element is canonical ([0, p), full   *)
(* length) and represents the machine's residue, every KNOWN point has     *)
(* canonical coordinates and denotes the machine's point (results of       *)
(* multiplications and normalisation: normalised affine form), the sticky  *)
(* code equals the machine's.  Damage to an object the call was not given  *)
(* - in ANY layer -, state left over from an error, or from an earlier     *)
(* parameter set, shows at this or a LATER event.                          *)
(* A selection event must report the constants a FRESH library reports for *)
(* the same identifier (the expected values xp .. xn of the case line come *)
(* from a separate process that selected only this set).                   *)
(***************************************************************************)
EXTENDS RelicSys, FpRep, TLC, Json, IOUtils

Events == ndJsonDeserialize(IOEnv.TRACE)
VARIABLE l
tvars == <<svars, l>>

BnVal(o) == I(o.s = 1, o.d)
TopDigitNonZero(o, w) == \E j \in (Len(o.d) - w + 1)..Len(o.d) : o.d[j] # 0
BnNormal(o, w) == /\ Len(o.d) = o.u * w
                  /\ IF BNorm(o.d) = <<>> THEN o.s = 0 /\ o.u <= 1 ELSE TopDigitNonZero(o, w)
Nat0(o) == BNorm(o.d)        \* value of a non-negative integer projection

NormalisedOut == {"ep_norm", "ep_mul", "ep_mul_gen", "ep_mul_sim", "ep_gen"}

Refines(e) ==
    /\ e.code = code'
    /\ \A s \in Slots : bn'[s].known => BnNormal(e.bn[s], e.bw) /\ e.bn[s].u <= Cap /\ IEq(BnVal(e.bn[s]), bn'[s].val)
    /\ \A s \in Slots : fp'[s].known => FCanon(e, e.fp[s]) /\ FAbs(e, e.fp[s]) = fp'[s].val
    /\ \A s \in Slots : ep'[s].known => PCanon(e, e.ep[s]) /\ PEq(PAbs(e, e.ep[s]), ep'[s].val)
    /\ (e.op \in NormalisedOut /\ e.err = 0) => PNormal(e, e.ep[e.o])
    /\ TypeOK'

Selected(e) ==
    LET q == Par(FPrime(e), FAbs(e, e.ca), FAbs(e, e.cb), PAbs(e, e.g), Nat0(e.n)) IN
    /\ e.err = 0
    /\ q.c.p = Nat0(e.xp) /\ q.c.a = Nat0(e.xa) /\ q.c.b = Nat0(e.xb)
    /\ ~q.g.inf /\ q.g.x = Nat0(e.xgx) /\ q.g.y = Nat0(e.xgy) /\ q.n = Nat0(e.xn)
    /\ FCanon(e, e.ca) /\ FCanon(e, e.cb) /\ PNormal(e, e.g)
    /\ Select(q)

Step(e) ==
    CASE e.op = "reset" -> par' = NoPar /\ bn' = [s \in Slots |-> R!K(IZero)] /\ fp' = AllUnk /\ ep' = AllUnk /\ code' = 0
      [] e.op = "skip" -> UNCHANGED svars
      [] e.op = "select" -> Selected(e)
      [] e.op = "bset" -> BnSet(e.o, BnVal(e.v))
      [] e.op = "fset" -> FpSet(e.o, BMod(Nat0(e.v), P))
      [] e.op = "getcode" -> GetCode(e.ret)
      [] e.op \in R!BinOps \cup R!UnOps \cup R!ShOps ->
            IF e.err = 0 THEN BnRet(e.op, e.o, e.a, e.b, e.k) ELSE BnThrow(e.op, e.o, e.a, e.b, e.k)
      [] e.op \in FpOps ->
            IF e.err = 0 THEN FpRet(e.op, e.o, e.a, e.b) ELSE FpThrow(e.op, e.o, e.a, e.b)
      [] e.op = "fp_back" -> e.err = 0 /\ FpBack(e.o, e.a)
      [] e.op \in EpOps -> e.err = 0 /\ EpRet(e.op, e.o, e.a, e.k, e.b, e.m)
      [] OTHER -> e.err = 0 /\ Query(e.op, e.a, e.b, e.ret)

TInit == SInit /\ l = 1
TNext == /\ l <= Len(Events)
         /\ LET e == Events[l] IN Step(e) /\ Refines(e)
         /\ l' = l + 1
TSpec == TInit /\ [][TNext]_tvars
Reached == PrintT(<<"@@", "REACHED", TLCGet("stats").diameter - 1>>)
=============================================================================
