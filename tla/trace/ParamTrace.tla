----------------------------- MODULE ParamTrace -----------------------------
(* C18: one event per (parameter id, relation); accepted iff the relation of  *)
(* model/ParamSpec holds on the dumped constants.                             *)
EXTENDS ParamSpec, TLC, Json, IOUtils

Events == ndJsonDeserialize(IOEnv.TRACE)
KnownKeys == ndJsonDeserialize(IOEnv.KNOWN)
Known(e) == LET k == ParamKnownKey(e) IN
            IF k # "" /\ \E j \in 1..Len(KnownKeys) : KnownKeys[j].key = k THEN k ELSE ""
VARIABLE l
Init == l = 1
Next == /\ l <= Len(Events)
        /\ LET e == Events[l] IN
             IF ParamAccept(e) THEN TRUE
             ELSE Known(e) # "" /\ PrintT(<<"@@", "KF", Known(e), e.i>>)
        /\ l' = l + 1
Spec == Init /\ [][Next]_l
Reached == PrintT(<<"@@", "REACHED", TLCGet("stats").diameter - 1>>)
=============================================================================
