----------------------------- MODULE RelicTrace -----------------------------
(***************************************************************************)
(* Call histories executed by harness/relic_vm.c against the real library  *)
(* validated with the machine of model/Relic: each event names the call    *)
(* and its slot numbers, reports whether it threw, and carries the raw     *)
(* projection of EVERY slot after the call.  The event is explained iff    *)
(* one of the machine's outcomes for this call from the CURRENT machine    *)
(* state yields a state that the projection refines: every KNOWN slot is   *)
(* in normal form and has the machine's value (this is where damage to an  *)
(* object the call was not given, or state left over from an earlier error,*)
(* shows), and the sticky code equals the machine's.                       *)
(***************************************************************************)
EXTENDS Relic, BnSpec, TLC, Json, IOUtils

Events == ndJsonDeserialize(IOEnv.TRACE)
VARIABLE l
tvars == <<vars, l>>

Refines(e) ==
    /\ e.code = code'
    /\ \A s \in 1..NSlots :
          slots'[s].known => /\ Normal(e.slots[s], e.w)
                             /\ IEq(Val(e.slots[s]), slots'[s].val)

Step(e) ==
    CASE e.op = "reset" -> slots' = [s \in 1..NSlots |-> K(IZero)] /\ code' = 0
      [] e.op = "set" -> Set(e.o, Val(e.v))
      [] e.op = "getcode" -> GetCode(e.ret)
      [] OTHER -> IF e.err = 0 THEN Ret(e.op, e.o, e.a, e.b, e.k) ELSE Throw(e.op, e.o, e.a, e.b, e.k)

TInit == Init /\ l = 1
TNext == /\ l <= Len(Events)
         /\ LET e == Events[l] IN Step(e) /\ Refines(e)
         /\ l' = l + 1
TSpec == TInit /\ [][TNext]_tvars
Reached == PrintT(<<"@@", "REACHED", TLCGet("stats").diameter - 1>>)
=============================================================================
