------------------------------ MODULE BntTrace ------------------------------
(***************************************************************************)
(* Trace specification for the modular / number-theoretic functions and    *)
(* the scalar recodings of the bn module (C09).  Each event is one public  *)
(* call recorded by harness/drv_bnt.c with the RAW projection of its       *)
(* inputs (before) and outputs (after).  An event is accepted iff the      *)
(* outputs are what BntSpec defines for these inputs.  The same spec       *)
(* validates the 8-bit small world and the shipped 64-bit build: values    *)
(* are byte sequences in both.  Abnormal executions (CRASH / TIMEOUT       *)
(* events) are never accepted.                                             *)
(***************************************************************************)
EXTENDS BntSpec, TLC, Json, IOUtils

Events == ndJsonDeserialize(IOEnv.TRACE)
KnownKeys == ndJsonDeserialize(IOEnv.KNOWN)
BntKnown(e) == LET k == BntKnownKey(e) IN
               IF k # "" /\ \E j \in 1..Len(KnownKeys) : KnownKeys[j].key = k THEN k ELSE ""
VARIABLE pos

Init == pos = 1
Next == /\ pos <= Len(Events)
        /\ LET e == Events[pos] IN
             IF BntAccept(e) THEN TRUE
             ELSE /\ BntKnown(e) # ""
                  /\ PrintT(<<"@@", "KF", BntKnown(e), e.i>>)
        /\ pos' = pos + 1
Spec == Init /\ [][Next]_pos
Reached == PrintT(<<"@@", "REACHED", TLCGet("stats").diameter - 1>>)
=============================================================================
