------------------------------ MODULE Sig2Trace ------------------------------
(***************************************************************************)
(* Trace specification for the second group of signature schemes of C05    *)
(* (proofs / signatures of knowledge, vBNN-IBS, ring signatures,           *)
(* Camenisch-Lysyanskaya, Pointcheval-Sanders, homomorphic signatures).    *)
(* Each event is one key generation, signing or VERIFICATION call recorded *)
(* by harness/drv_sig2.c with everything the call was given, the ghost     *)
(* logarithms of the G2 elements and the verdict it returned.  An event is *)
(* accepted iff Sig2Spec - the schemes' definitions evaluated here on the  *)
(* abstract values, after VERIFYING every ghost value - explains it.       *)
(* Events are independent (stateless).                                     *)
(***************************************************************************)
EXTENDS Sig2Spec, TLC, Json, IOUtils

Events == ndJsonDeserialize(IOEnv.TRACE)
KnownKeys == ndJsonDeserialize(IOEnv.KNOWN)
Sig2Known(e) == LET k == Sig2KnownKey(e) IN
                IF k # "" /\ \E j \in 1..Len(KnownKeys) : KnownKeys[j].key = k THEN k ELSE ""
VARIABLE l

Init == l = 1
Next == /\ l <= Len(Events)
        /\ LET e == Events[l] IN
             IF Sig2Accept(e) THEN TRUE
             ELSE /\ Sig2Known(e) # ""
                  /\ PrintT(<<"@@", "KF", Sig2Known(e), e.i>>)
        /\ l' = l + 1
Spec == Init /\ [][Next]_l
Reached == PrintT(<<"@@", "REACHED", TLCGet("stats").diameter - 1>>)
=============================================================================
