------------------------------ MODULE CtTrace ------------------------------
(***************************************************************************)
(* C20, relational conformance: every recorded run carries the observation *)
(* (run-length encoded group-level callee sequence, number of basic blocks *)
(* executed in the instrumented objects, hash of the block sequence).  All *)
(* runs of one class - same algorithm, same public parameters, secrets of  *)
(* one public bit length - must have the same observation as the first run *)
(* of the class.  No fixed schedule is demanded.  Classes whose name       *)
(* starts with "ctl" are non-regular controls: nothing is required of them.*)
(***************************************************************************)
EXTENDS Naturals, Sequences, TLC, Json, IOUtils

Events == ndJsonDeserialize(IOEnv.TRACE)
VARIABLES l, cls, ref
Obs(e) == [ops |-> e.ops, len |-> e.len, hash |-> e.hash, len2 |-> e.len2, hash2 |-> e.hash2, err |-> e.err]
IsControl(e) == e.ctl = 1
KnownKeys == ndJsonDeserialize(IOEnv.KNOWN)
Enabled(k) == \E j \in 1..Len(KnownKeys) : KnownKeys[j].key = k

(* occurrences of a callee name in a run-length encoded sequence *)
RECURSIVE CountOf(_, _, _)
CountOf(ops, name, i) == IF i > Len(ops) THEN 0
                         ELSE (IF ops[i][1] = name THEN ops[i][2] ELSE 0) + CountOf(ops, name, i + 1)
Names(ops) == {ops[i][1] : i \in 1..Len(ops)}
(* Known finding C20-sac-length-from-secret: bn_rec_sac (BN sets) derives the recoding length from the bit   *)
(* lengths of the secret sub-scalars, so the 4-dimensional GLS loops of g2_mul_sec / gt_exp_sec run one      *)
(* iteration more or less.  Enabled only for exactly that shape: the separately observed blocks of            *)
(* bn_rec_sac may differ, and the three loop operations may ALL differ by the same d in {-1, 0, 1};            *)
(* for d = 0 everything outside bn_rec_sac must coincide.                                                      *)
LoopOps(alg) == IF alg = "gt_exp_sec" THEN {"fp12_sqr_lazyr", "fp12_sqr_basic", "fp12_mul_lazyr", "fp12_mul_basic", "fp12_inv_cyc"}
                ELSE {"ep2_dbl_projc", "ep2_dbl_basic", "ep2_add_projc", "ep2_add_basic", "ep2_neg"}
KnownSac(e, r) ==
    /\ Enabled("C20-sac-length-from-secret")
    /\ e.alg \in {"g2_mul_sec", "gt_exp_sec"} /\ e.err = 0 /\ r.err = 0
    /\ Names(e.ops) = Names(r.ops)
    /\ \E d \in {0 - 1, 0, 1} :
          /\ \A n \in Names(e.ops) :
                CountOf(e.ops, n, 1) - CountOf(r.ops, n, 1) = (IF n \in LoopOps(e.alg) THEN d ELSE 0)
          /\ (d = 0 => e.ops = r.ops /\ e.len = r.len /\ e.hash = r.hash)
          /\ (d # 0 \/ e.len2 # r.len2 \/ e.hash2 # r.hash2)

Init == l = 1 /\ cls = "" /\ ref = [ops |-> <<>>, len |-> 0, hash |-> <<>>, len2 |-> 0, hash2 |-> <<>>, err |-> 0]
Next == /\ l <= Len(Events)
        /\ LET e == Events[l] IN
             /\ e.op = "ct"
             /\ IF e.cls # cls
                THEN cls' = e.cls /\ ref' = Obs(e)          \* first run of a class: the reference
                ELSE /\ \/ IsControl(e)
                        \/ Obs(e) = ref
                        \/ KnownSac(e, ref) /\ PrintT(<<"@@", "KF", "C20-sac-length-from-secret", e.i>>)
                     /\ UNCHANGED <<cls, ref>>
        /\ l' = l + 1
Spec == Init /\ [][Next]_<<l, cls, ref>>
Reached == PrintT(<<"@@", "REACHED", TLCGet("stats").diameter - 1>>)
=============================================================================
