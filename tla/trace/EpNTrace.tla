------------------------------ MODULE EpNTrace ------------------------------
(***************************************************************************)
(* Trace specification for the twists over F_p3, F_p4 and F_p8 (C11,       *)
(* extension part).  Each event is one public ep3 / ep4 / ep8 call         *)
(* recorded by harness/drv_epn.c with the RAW projection of its inputs     *)
(* (before) and outputs (after) plus the field header, the tower           *)
(* description and the raw twist coefficients.  An event is accepted iff   *)
(* the outputs are what EpNSpec defines for these inputs: the abstract     *)
(* output point equals the result of lib/CurveX (affine group law over the *)
(* tower of lib/Tower, [k]Q by double-and-add) on the abstract input       *)
(* points; Frobenius = [p^j mod r] on subgroup points; cofactor map: image *)
(* on the curve and annihilated by r.                                      *)
(***************************************************************************)
EXTENDS EpNSpec, TLC, Json, IOUtils

Events == ndJsonDeserialize(IOEnv.TRACE)
KnownKeys == ndJsonDeserialize(IOEnv.KNOWN)
EpNKnown(e) == LET k == EpNKnownKey(e) IN
               IF k # "" /\ \E j \in 1..Len(KnownKeys) : KnownKeys[j].key = k THEN k ELSE ""
VARIABLE l

Init == l = 1
Next == /\ l <= Len(Events)
        /\ LET e == Events[l] IN           \* IF, not a disjunction: TLC then evaluates EpNAccept as an
             IF EpNAccept(e) THEN TRUE      \* expression (short-circuit) instead of enumerating its disjuncts
             ELSE /\ EpNKnown(e) # ""
                  /\ PrintT(<<"@@", "KF", EpNKnown(e), e.i>>)
        /\ l' = l + 1
Spec == Init /\ [][Next]_l
Reached == PrintT(<<"@@", "REACHED", TLCGet("stats").diameter - 1>>)
=============================================================================
