------------------------------ MODULE FbTrace ------------------------------
(***************************************************************************)
(* Trace specification for binary fields and binary curves (C16).  Each    *)
(* event is one public fb / fb2 / eb call recorded by harness/drv_fb.c     *)
(* with the RAW digits of its inputs (before) and outputs (after), the     *)
(* field polynomial and, for curve calls, the curve.  An event is accepted *)
(* iff FbSpec - the definition by polynomial arithmetic over GF(2) modulo  *)
(* f (lib/GF2m) and by the affine group law (lib/BinCurve) on abstract     *)
(* values, plus the reduced-representation clause on every output -        *)
(* explains it.  The same spec validates the tiny world GF(2^17) (8-bit    *)
(* digits) and the shipped GF(2^283) build.                                *)
(***************************************************************************)
EXTENDS FbSpec, TLC, Json, IOUtils

Events == ndJsonDeserialize(IOEnv.TRACE)
KnownKeys == ndJsonDeserialize(IOEnv.KNOWN)
FbKnown(e) == LET k == FbKnownKey(e) IN
              IF k # "" /\ \E j \in 1..Len(KnownKeys) : KnownKeys[j].key = k THEN k ELSE ""
VARIABLE l

Init == l = 1
Next == /\ l <= Len(Events)
        /\ LET e == Events[l] IN
             \/ FbAccept(e)
             \/ /\ FbKnown(e) # ""
                /\ PrintT(<<"@@", "KF", FbKnown(e), e.i>>)
        /\ l' = l + 1
Spec == Init /\ [][Next]_l
Reached == PrintT(<<"@@", "REACHED", TLCGet("stats").diameter - 1>>)
=============================================================================
