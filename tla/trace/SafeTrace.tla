------------------------------ MODULE SafeTrace ------------------------------
(***************************************************************************)
(* C08, code -> spec.  Two kinds of events:                                *)
(* (a) allocation-fault replays (harness/drv_alloc.c, ALLOC=DYNAMIC): for  *)
(*     the failure injected at the k-th allocation of a call the outcome   *)
(*     must be the one model/AllocFault proves of the try/finally          *)
(*     discipline: the failure is reported (error caught by the caller,    *)
(*     sticky code set), no allocation made during the call is left live,  *)
(*     and the library is usable afterwards: the same call repeated without*)
(*     fault reproduces the fault-free result.                             *)
(* (b) executions of the other properties' drivers in the sanitizer build  *)
(*     (clang ASan + UBSan): a sanitizer report aborts the driver and is   *)
(*     recorded as a CRASH event, a hang as TIMEOUT; no action explains    *)
(*     either, so the trace is rejected at that case.  Ordinary events of  *)
(*     those drivers are consumed without judging their values (that is    *)
(*     the other properties' job), except that an event in which the guard *)
(*     bytes around a caller-supplied buffer were damaged is a GUARD event,*)
(*     which no action explains either.                                    *)
(***************************************************************************)
EXTENDS Naturals, Sequences, TLC, Json, IOUtils

Events == ndJsonDeserialize(IOEnv.TRACE)
KnownKeys == ndJsonDeserialize(IOEnv.KNOWN)
Enabled(k) == \E j \in 1..Len(KnownKeys) : KnownKeys[j].key = k
VARIABLE l

AllocBase(e) == e.err = 0 /\ e.code = 0 /\ e.leak = 0 /\ Len(e.base) > 0
AllocFaultOK(e) ==
    /\ e.k >= 1 /\ e.k <= e.n
    /\ e.err # 0 /\ e.code = 1                  \* the failure is reported through the error mechanism
    /\ e.leak = 0                               \* every temporary allocated before the failure was released
    /\ e.aerr = 0 /\ e.acode = 0 /\ e.after = e.base      \* usable afterwards, same result

Accept(e) ==
    CASE e.op = "allocbase" -> AllocBase(e)
      [] e.op = "allocfault" -> AllocFaultOK(e)
      [] e.op \in {"CRASH", "TIMEOUT"} -> FALSE
      [] e.op = "GUARD" -> FALSE                  \* guard bytes around the caller's buffer were overwritten
      [] OTHER -> TRUE

(* known findings (known_findings.json), keyed by call and outcome class *)
Has(e, f) == f \in DOMAIN e
KnownKey(e) ==
    IF e.op = "allocfault" /\ e.err # 0 /\ e.code = 1 /\ e.leak > 0 /\ e.aerr = 0 /\ e.acode = 0 /\ e.after = e.base
    THEN "C08-allocfault-leak-" \o e.call
    ELSE IF e.op = "CRASH" /\ Has(e, "alloc") THEN "C08-allocfault-crash-" \o e.call
    ELSE IF e.op = "CRASH" /\ Has(e, "asan") THEN "C08-asan-crash-" \o e.opname
    ELSE ""
Init == l = 1
Next == /\ l <= Len(Events)
        /\ LET e == Events[l] IN
             IF Accept(e) THEN TRUE
             ELSE KnownKey(e) # "" /\ Enabled(KnownKey(e)) /\ PrintT(<<"@@", "KF", KnownKey(e), e.i>>)
        /\ l' = l + 1
Spec == Init /\ [][Next]_l
Reached == PrintT(<<"@@", "REACHED", TLCGet("stats").diameter - 1>>)
=============================================================================
