------------------------------ MODULE PpxTrace ------------------------------
(* C04 trace specification for the field-size sweep (k = 8, 16, 18, 24, 48): *)
(* segments of events per (build, pairing function); the first event of a    *)
(* segment fixes g0 = e(G1, G2).                                             *)
EXTENDS PpxSpec, TLC, Json, IOUtils
Events == ndJsonDeserialize(IOEnv.TRACE)
KnownKeys == ndJsonDeserialize(IOEnv.KNOWN)
PpxKnown(e, g) == LET k == PpxKnownKey(e, g) IN
                  IF k # "" /\ \E j \in 1..Len(KnownKeys) : KnownKeys[j].key = k THEN k ELSE ""
VARIABLES l, seg, g0
Seg(e) == <<e.id, e.fam>>
Init == l = 1 /\ seg = <<0, "">> /\ g0 = <<>>
Next == /\ l <= Len(Events)
        /\ LET e == Events[l] IN
             IF Seg(e) # seg
             THEN /\ IF Reference(e) THEN TRUE
                     ELSE PpxKnown(e, g0) # "" /\ PrintT(<<"@@", "KF", PpxKnown(e, g0), e.i>>)
                  /\ seg' = Seg(e) /\ g0' = GtOf(e)
             ELSE /\ IF Bilinear(e, g0) THEN TRUE
                     ELSE PpxKnown(e, g0) # "" /\ PrintT(<<"@@", "KF", PpxKnown(e, g0), e.i>>)
                  /\ UNCHANGED <<seg, g0>>
        /\ l' = l + 1
Spec == Init /\ [][Next]_<<l, seg, g0>>
Reached == PrintT(<<"@@", "REACHED", TLCGet("stats").diameter - 1>>)
=============================================================================
