------------------------------ MODULE MapTrace ------------------------------
(***************************************************************************)
(* Trace specification for hashing to curve groups (C13).  Each event is   *)
(* one public map call recorded by harness/drv_map.c: the input bytes, the *)
(* constants the library maps with, the raw point returned, and the raw    *)
(* point returned for the same input after unrelated calls.  An event is   *)
(* accepted iff model/MapSpec explains it: the point is the documented     *)
(* construction evaluated by the spec from the input bytes (message        *)
(* expansion by lib/Xmd, map, sign rule, isogeny, addition and cofactor    *)
(* clearing by lib/Curve / lib/CurveX), it is a point of the prime-order   *)
(* subgroup, and both evaluations agree bit for bit.                       *)
(***************************************************************************)
EXTENDS MapSpec, TLC, Json, IOUtils

Events == ndJsonDeserialize(IOEnv.TRACE)
KnownKeys == ndJsonDeserialize(IOEnv.KNOWN)
MapKnown(e) == LET k == MapKnownKey(e) IN
               IF k # "" /\ \E j \in 1..Len(KnownKeys) : KnownKeys[j].key = k THEN k ELSE ""
VARIABLE l

Init == l = 1
Next == /\ l <= Len(Events)
        /\ LET e == Events[l] IN
             IF MapAccept(e) THEN TRUE
             ELSE /\ MapKnown(e) # ""
                  /\ PrintT(<<"@@", "KF", MapKnown(e), e.i>>)
        /\ l' = l + 1
Spec == Init /\ [][Next]_l
Reached == PrintT(<<"@@", "REACHED", TLCGet("stats").diameter - 1>>)
=============================================================================
