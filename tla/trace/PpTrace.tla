------------------------------ MODULE PpTrace ------------------------------
(* C04 trace specification: segments of events per (parameter set, pairing  *)
(* function); the first event of a segment fixes g0 = e(G1, G2).            *)
EXTENDS PpSpec, TLC, Json, IOUtils
Events == ndJsonDeserialize(IOEnv.TRACE)
VARIABLES l, seg, g0
Seg(e) == <<e.id, e.fam>>
Init == l = 1 /\ seg = <<0, "">> /\ g0 = <<>>
Next == /\ l <= Len(Events)
        /\ LET e == Events[l] IN
             IF Seg(e) # seg
             THEN Reference(e) /\ seg' = Seg(e) /\ g0' = Gt(e)
             ELSE Bilinear(e, g0) /\ UNCHANGED <<seg, g0>>
        /\ l' = l + 1
Spec == Init /\ [][Next]_<<l, seg, g0>>
Reached == PrintT(<<"@@", "REACHED", TLCGet("stats").diameter - 1>>)
=============================================================================
