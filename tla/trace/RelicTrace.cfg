CONSTANTS Cap = 18  NSlots = 4  Digs = 8  DigBytes = 1
SPECIFICATION TSpec
POSTCONDITION Reached
CHECK_DEADLOCK FALSE
